#!/usr/bin/env python3
"""Generates /verif/MANIFEST.json from the table below (kept in one place so the manifest stays valid)."""
import json, os, subprocess

HERE = os.path.dirname(os.path.dirname(os.path.abspath(__file__)))

E1 = "simworld (in-process world simulator)"
E2 = "httpsim (HTTP retry simulation on tokio paused clock)"
E3 = "procsim (process-level simulator: strace syscall fault / kill injection)"

# id -> (engine, category, technique, level text, level note, design ref)
CHECKS = {
 "C15": (E3, "fault_enumeration",
   "process-level deterministic simulation: the real client in its own process under strace; SIGKILL on entry to, and EIO/ENOSPC/EACCES from, every datastore system call position enumerated from a dry run; plus a genuinely full tmpfs; follow-up cycles as oracle",
   "Per seeded template a successful cycle 1, then cycle 2 against a newer repository is re-executed once per fault position: every open-for-write, write, rename and unlink that touches a datastore file (positions taken from a dry run of the binary under test, traced with strace -P so that only datastore calls are counted), each with SIGKILL at entry, EIO, ENOSPC (EACCES for opens), and the datastore on a tmpfs with 0..2 free pages. Each resulting datastore is offered three replayed older repositories (must be refused) and the current one (must load).",
   "Process death, not power loss (no page-cache loss; missing fsync invisible). Datastore I/O must come from one thread in a stable order (checked by two dry runs per template). Writes to temporary files whose names are random are reached through the rename that publishes them and through the full-disk fault, not individually.", "DESIGN.md §5 C15"),
 "C20": (E3, "exploration",
   "process-level simulation of an operator: seeded command programs on the real tuftool binary with syscall failures (rename/link, unlink, fsync, open of root.json) and a full tmpfs inside a third of the commands; reference model of the root as oracle",
   "Programs of 3..12 `tuftool root` subcommands over 1..3 keys (RSA, ECDSA, Ed25519) including commands that must fail; inside a seeded third of them one fault is active. Oracle (outcome-based): exit 0 => the file parses as a root, every key id is the digest of its key (two independent canonical-JSON encoders), content equals the model implied by the commands so far, content-changing commands leave no signatures, a plain `sign` leaves a root that verifies under its own root keys and threshold; exit != 0 => root.json is byte-identical to before.",
   "Signature validity comes from the tough library (checked by C01) plus an independent Ed25519 check. tuftool's runtime is multi-threaded, so faults are thread-agnostic ('every call of this kind fails').", "DESIGN.md §5 C20"),
 "C10": (E1, "exploration",
   "deterministic simulation with tough's real editor as the publisher: seeded editing programs against a reference model, reload through the simulated mirror, and the cross-party flow with hostile incoming metadata",
   "Seeded programs drive RepositoryEditor over a delegation tree of depth <=3 (roles with 0..40 targets so delegated files are smaller and larger than targets.json, 1..3 keys of mixed algorithms, thresholds 1..3, noise operations), sign with adequate or inadequate key sets, write, publish targets by copy or symlink, then reload with the real client. Oracle: if sign and write succeeded the result loads; targets, delegation structure, versions, expirations equal the model; every snapshot/timestamp meta entry equals (version, length, sha256) of the written file; every target reads back. Cross-party: a role holder edits and signs its role with TargetsEditor; the incoming file is genuine, under-signed, carries a duplicated signature, is signed by wrong keys, or is older; update_delegated_targets must accept exactly the genuine one.",
   "Mostly a model-based operation-sequence check (small fault space). Reload goes through a directory-backed transport that decodes target paths like a web server.", "DESIGN.md §5 C10"),
 "C17": (E1, "exploration",
   "deterministic simulation: foreign-publisher repositories with unknown members and delegated roles passed through tough's real editor (load -> from_repo -> re-sign -> write -> load) against a reference of what must survive",
   "Seeded originals (custom data on targets, 0..2 delegated roles of depth <=2 with thresholds up to 3 and their own unknown members, 0..2 unknown top-level members in each of targets, snapshot, timestamp) are updated with new versions/expirations and 0..3 added targets. Oracle: target set = old + added with identical lengths, digests and custom data; delegation structure and every delegated role's signed content canon-equal to the original (and still verifying, since the reload succeeds); every unknown top-level member of targets, snapshot and timestamp present and equal.",
   "Unknown members below the top level of a signed portion are not generated (C12 covers them).", "DESIGN.md §5 C17"),
 "C19": (E1, "exploration",
   "deterministic simulation: clone (cache) of generated repositories served by the simulated mirror, incl. a corrupted source target, followed by a reload from the two directories with the real FilesystemTransport; sandbox tree observed",
   "Seeded repositories (1..3 root versions with optional online-key rotation, odd role and target names, both consistent-snapshot settings) are cloned with all targets or a subset, with/without root chain, optionally with one corrupted source target or an unlisted name. Oracle: nothing outside the two directories changes; the clone loads with identical role versions; every requested target reads back byte-identical; 1..N root files present when asked; a corrupted target is never stored and makes cache() fail.",
   "Writes are drained before inspection (cache() does not flush; see DESIGN). Known finding: names the URL library percent-encodes cannot be read back over file:// URLs.", "DESIGN.md §5 C19"),
 "C18": (E2, "fault_enumeration",
   "deterministic simulation of the HTTP retry state machine: tough's real HttpTransport/RetryStream on tokio's paused clock, hook H3 answering each built request from an enumerated fault script (5xx, stalls, 4xx, range support)",
   "Every request tough builds is answered by a scripted server model: 200/206 full, body stalled after k bytes then timing out in virtual time, 500, 503, 403, 404, 410, 400, 416, with or without Accept-Ranges. All scripts up to tries+2 entries are enumerated for resource sizes 0..2 (quick: tries 1..2; thorough: tries 1..4), plus seeded runs up to 256 KiB with randomised back-off, time-out and chunking. Oracle: yielded bytes are a prefix of the resource and complete when the stream ends cleanly; requests <= tries; Range only after Accept-Ranges and at the yielded offset; 403/404/410 => FileNotFound; 400/416 => fatal, no further request; a reference client that completes within the budget implies tough completes.",
   "reqwest/hyper/TCP/TLS are stubbed below Client::execute; connection-phase errors (is_request) cannot be synthesised; stalls are body-phase only.", "DESIGN.md §5 C18"),
 "C16": (E1, "exploration",
   "deterministic simulation of a Byzantine role namer: hostile delegated role names through client load (URLs requested, datastore), cache_metadata and the real editor's write, observed as I/O on a sandbox tree",
   "Role names over {/ \\ . % ? # : space \\x01 e-acute a 1} enumerated to length 4 (thorough: all 22 620), a hostile dictionary ('.', '..', 'a%2Fb' next to 'a/b', 'x.json', '1.root', ...) and seeded names to length 64; 1..3 roles per repository. Oracle: every requested URL is <metadata base>/<one plain segment>; datastore, cache and editor output hold only plain files directly inside and nothing else in the sandbox changes; N distinct role names give N distinct files at every one of the four places.",
   "Same-name delegated/top-level collisions (targets, 1.root, latest_known_time ...) are checked for containment only. tokio::fs writes are drained (single FIFO blocking thread + barrier) before each observation.", "DESIGN.md §5 C16"),
 "C12": (E1, "exploration",
   "deterministic simulation of an on-path adversary and a foreign conforming publisher: single in-flight mutations of validly signed documents (version-only pins, so signatures are the only defence), role substitution under a shared key, documents with unknown members signed over an independent canonical-JSON encoder",
   "Per run one role type (root, timestamp, snapshot, targets, delegated) gets a foreign document with unknown members at one struct-like level (names with space, '!', quote, backslash, non-ASCII, prefix pairs) and exactly one in-flight change: none, re-ordering, whitespace, junk signature, scalar change / member insert / delete / duplicate anywhere, _type rewrite, timestamp<->snapshot swap under a key authorised for both. Oracle: whatever is accepted exposes content whose reference canonical form equals what was signed; untampered and benignly changed documents are not refused for signature or parse reasons; swapped roles are refused.",
   "Trusts the harness's reference canonical JSON (no shared code with olpc-cjson); NFC-unstable strings are not generated; unknown members inside key objects are C13's domain.", "DESIGN.md §5 C12"),
 "C07": (E1, "exploration",
   "deterministic simulation of a Byzantine delegatee: seeded delegation trees with out-of-scope and shadowing entries, checked against a reference pre-order lookup through load + read_target",
   "Seeded trees (depth <=3, fan-out <=3) whose roles list entries outside their delegated paths or shadow names of earlier roles; path sets from literals, '*', '?', hash prefixes; names needing resolution. Oracle: reference pre-order lookup with pruning; load must fail iff some listed name has no authorised entry; for every name read_target must accept exactly the content signed by the reference entry. Wildcard/separator-ambiguous cases are not judged.",
   "Weakest fit for simulation (no clock, storage or schedule): the deciding step is seeded generation against a reference model, through the full client. Trusts the harness glob reference on unambiguous cases.", "DESIGN.md §5 C07"),
 "C08": (E1, "fault_enumeration",
   "deterministic simulation: observer interleaved at every poll of the target stream; every failure position of each transfer enumerated (corruption, oversize, transport error before each chunk) on a real sandbox directory",
   "Names over {a b . / \\ space % ~} enumerated to length 5 (thorough: all 37 448) plus seeded names to length 40. For each name every failing delivery (bit flip, oversize, transport error before chunk k for every k) and then the clean one is run against one sandbox; an observer scans the whole sandbox (and the predicted escape path) at every poll of the target stream and after return. Invariants: nothing outside the output directory changes; the destination is absent, the previous file or the complete signed content at every observation; failed attempts leave all regular files unchanged; success leaves exactly the signed bytes.",
   "Real file system without disk faults; destination predicted by an independent path model; the last-write-error path of save_target (needs disk faults) is out of reach here.", "DESIGN.md §5 C08"),
 "C05": (E1, "exploration",
   "deterministic simulation: the adversary serves each metadata file from any repository state and in any byte variant (mix-and-match delivery); oracle over the bytes actually served",
   "1..3 genuinely signed repository states with role versions 1..3, pins by version only / +length / +sha256, four byte variants per document (compact, pretty, member order reversed, junk signature entry), delegated role listed or omitted; SimTransport answers each request from a scenario-chosen (state, variant). On success the bytes served must match version, digest and length pinned by the document actually trusted above; matching servings must not be refused for pin reasons; under consistent snapshots the version-prefixed name from the pinning document must be the one requested.",
   "Trusts harness SHA-256 and its record of which bytes were served for which request.", "DESIGN.md §5 C05"),
 "C09": (E1, "exploration",
   "deterministic simulation: hostile servers (padding, endless streams, endless root chains, cyclic delegation graphs) under randomised Limits, with a transport-enforced request budget",
   "Per run: per-role limits from {0, size-1, exact, default, huge}, max_root_updates from {0,1,3,10}, 0..12 newer roots or an endless generator, delegation graphs incl. self-, mutual and 3-cycle delegation and a diamond, legitimate repositories with files exactly at their bound (delegated roles larger than targets.json), and padded/endless streams for any subset of files. Oracle: bytes pulled per request <= applicable bound + crossing chunk, root requests <= max_root_updates, total requests <= max_root_updates + 3 + delegations, termination, legitimate files not refused for size.",
   "Byte counts come from the transport; a repository with exactly max_root_updates newer roots is not judged.", "DESIGN.md §5 C09"),
 "C01": (E1, "exploration",
   "deterministic simulation: Byzantine signature lists injected at each of 8 verification sites of a full simulated update cycle; ground-truth bookkeeping oracle; thorough tier sweeps the finite word space",
   "Every run builds a whole repository with the foreign publisher, replaces the signature list of one document (shipped root, root N+1 under old keys / new keys / an unchanged root role entry with a pruned key table, a delegated role shared by two parents with different key sets, timestamp, snapshot, targets, delegated role at depth 1 and 2) by a word over the property's 7-letter alphabet and runs tough's real update cycle; accept must coincide with the harness's count of distinct authorised valid signatures. Thorough enumerates all 19 608 words x 10 sites x 16 (keys, threshold) shapes, then seeded runs with mixed algorithms.",
   "Trusts aws-lc signatures, the harness's reference canonical JSON, and its bookkeeping of who signed what. Simulation contributes the workflow sites and replay, not schedules: the property has no clock or interleaving.", "DESIGN.md §5 C01"),
 "C02": (E1, "exploration",
   "deterministic simulation: seeded root-chain histories with one broken hop, revoked-key metadata and availability faults on the root probe, against a reference walk",
   "Seeded chains of 1..5 roots with per-hop rotation kinds, shipped root anywhere (optionally not self-verifying), at most one hop broken in one of ten ways, top-level metadata signed by the online keys of any epoch, and fetch/stream x not-found/other faults on one root request. Oracle: reference walk from harness bookkeeping; success only with the last root reachable by acceptable hops, requests consecutive, revoked keys never accepted, good chains accepted.",
   "Trusts harness bookkeeping of signers; expiry is excluded (C04).", "DESIGN.md §5 C02"),
 "C03": (E1, "exploration",
   "deterministic simulation: seeded multi-cycle histories on one persistent datastore with replay of genuinely signed older files, failed cycles and key rotations between cycles",
   "Histories of 2..4 cycles over one real datastore directory; each cycle serves genuinely signed (timestamp, snapshot, targets, listed-targets) versions from 1..3 independently, 1..4 root versions change per-role keys/thresholds, shipped root older than or equal to the newest. Oracle: versions reported by earlier successful cycles must never decrease unless a newer root changed the role's keys; forward-moving repositories must not be locked out.",
   "Trusted versions are observed from the client's own Repository objects; published roots never shrink between cycles; shipped roots never get older.", "DESIGN.md §5 C03"),
 "C04": (E1, "exploration",
   "deterministic simulation with a virtual clock (hook H1): clock trajectories incl. jumps at a chosen fetch inside load and backward jumps between operations",
   "The client's only clock is the simulated absolute time; scenarios set expiries of the four roles at T0 +/- 1s..30y, run 1..5 operations (load, read_target, save_target) on one datastore and move the clock forward between and inside operations and backward between them. Oracle per clause (expired at the clock in force when the role's file was requested => must fail; nothing expired and clock monotone => must not fail for expiry/clock; enforcement off => never).",
   "Assumes H1 is the only clock read (Datastore::system_time); the instant now == expires is not judged.", "DESIGN.md §5 C04"),
 "C14": (E1, "exploration",
   "deterministic simulation: two-cycle histories across a root-key rotation with attacker-inflated stored versions (up to 2^64-2)",
   "Cycle 1 stores timestamp/snapshot at inflated versions; a chain of 0..3 newer roots then replaces timestamp and/or snapshot keys (disjoint, overlapping so that the stored file still verifies, drop-one, add, threshold-only, rotate-and-back); cycle 2 serves low versions. Oracle: replaced keys => must not be refused as rollback; nothing changed => lower versions must be refused.",
   "Key additions, threshold-only changes and rotate-and-back are not judged; the client ships the same old root in both cycles.", "DESIGN.md §5 C14"),
 "C06": (E1, "exploration",
   "deterministic simulation: seeded fault injection on the target byte stream (SimTransport) against tough's real client",
   "Seeded search over target sizes, chunkings, Pending points and one corruption kind per run (bit flip, truncation, extension, substitution, endless stream, transport error at chunk k); the oracle checks every delivered byte count and the harness's own SHA-256 of what the caller received. Sampling, not proof; each run is exactly replayable from its scenario file.",
   "Trusts aws-lc SHA-256, the foreign publisher's metadata being clean, and that read_target is the only path by which target bytes reach a caller.", "DESIGN.md §5 C06"),
}

NOT_APPLICABLE = {
 "C11": "pure function of one JSON value: no schedule, clock, storage, fault or second party to simulate; input generation alone would not be deterministic simulation (DESIGN §6). Its cross-party consequence (signer and verifier agree on canonical bytes) is exercised under C12.",
 "C13": "key-identifier validation is a pure function of one parsed document; no fault, interleaving or history dimension exists for a simulator to explore (DESIGN §6).",
}

def main():
    props = [json.loads(l)["id"] for l in open(os.path.join(HERE, "properties.jsonl"))]
    try:
        hook_commits = subprocess.check_output(["git", "-C", "/repo", "log", "--format=%H", "--grep=verif-hooks"], text=True).split()
    except Exception:
        hook_commits = []
    checks = []
    for pid in props:
        if pid in CHECKS:
            eng, cat, tech, text, note, ref = CHECKS[pid]
            checks.append({
                "property_id": pid,
                "quick_cmd": f"./check {pid} --tier quick",
                "thorough_cmd": f"./check {pid} --tier thorough",
                "evidence_file": f"/verif/evidence/{pid}.json",
                "replay_cmd_template": f"./check {pid} --replay {{path}}",
                "engine": eng,
                "level_claimed": {"category": cat, "text": text + " The evidence file's `rule` states the world as it is generated today; dimensions added after the design was written are listed in DESIGN.md §14.1, sensitivity results (independent seeded changes and mutants this check catches) in §17.", "design_ref": ref},
                "level_note": note,
                "technique": tech,
            })
    na = []
    for pid in props:
        if pid not in CHECKS:
            na.append({"property_id": pid, "reason": NOT_APPLICABLE.get(pid, "check not built yet in this round (planned, see DESIGN.md §5); not claimed until its check runs clean on the unchanged tree")})
    engines = []
    for name, path in ((E1, "/verif/sim"), (E2, "/verif/sim/src/c18.rs"), (E3, "/verif/procsim")):
        served = [p for p in props if p in CHECKS and CHECKS[p][0] == name]
        if served:
            engines.append({"name": name, "path": path, "serves_properties": served, "kind_free_text": "deterministic simulation with fault injection"})
    m = {
        "version": 1,
        "setup_cmd": "cd /verif/sim && CARGO_NET_OFFLINE=true cargo build --release --offline && cd /repo && CARGO_NET_OFFLINE=true CARGO_TARGET_DIR=/verif/target/tuftool cargo build --release --offline -p tuftool",
        "hooks": {
            "guard": "cargo feature `verif-hooks` on crate tough (off by default)",
            "enable": "the harness crate /verif/sim depends on /repo/tough with features [\"http\", \"verif-hooks\"]; ./check rebuilds it from /repo's working tree",
            "baseline_off_cmd": "cd /repo && cargo test --workspace --no-fail-fast --offline",
            "source_commits": hook_commits,
            "add_only": True,
        },
        "engines": engines,
        "checks": checks,
        "not_applicable": na,
        "notes": "Exit codes: 0 held, 1 VIOLATION printed, 2 harness trouble. VERIF_SEED overrides the fixed default seed (VERIF_THREADS, VERIF_RUNS, VERIF_WALL_S bound a batch). Known findings: /verif/known_findings.jsonl. Sensitivity material: /verif/seeded/<id>-agent{1..4}/ (72 independent breaking changes with demonstrations, seeded/RESULTS.json = last full re-run against the final checks) and /verif/mutants/ (54 single-edit mutants, RESULTS.json); tools/seeded_suite.py and tools/mutants.py re-run them (they apply each patch to /repo's working tree and undo it).",
    }
    json.dump(m, open(os.path.join(HERE, "MANIFEST.json"), "w"), indent=1)
    print("claimed:", [c["property_id"] for c in checks])

if __name__ == "__main__":
    main()
