#!/usr/bin/env python3
"""Generates /verif/MANIFEST.json from the table below (kept in one place so the manifest stays valid)."""
import json, os, subprocess

HERE = os.path.dirname(os.path.dirname(os.path.abspath(__file__)))

E1 = "simworld (in-process world simulator)"
E2 = "httpsim (HTTP retry simulation on tokio paused clock)"
E3 = "procsim (process-level simulator: strace syscall fault / kill injection)"

# id -> (engine, category, technique, level text, level note, design ref)
CHECKS = {
 "C06": (E1, "exploration",
   "deterministic simulation: seeded fault injection on the target byte stream (SimTransport) against tough's real client",
   "Seeded search over target sizes, chunkings, Pending points and one corruption kind per run (bit flip, truncation, extension, substitution, endless stream, transport error at chunk k); the oracle checks every delivered byte count and the harness's own SHA-256 of what the caller received. Sampling, not proof; each run is exactly replayable from its scenario file.",
   "Trusts aws-lc SHA-256, the foreign publisher's metadata being clean, and that read_target is the only path by which target bytes reach a caller.", "DESIGN.md §5 C06"),
}

NOT_APPLICABLE = {
 "C11": "pure function of one JSON value: no schedule, clock, storage, fault or second party to simulate; input generation alone would not be deterministic simulation (DESIGN §6). Its cross-party consequence (signer and verifier agree on canonical bytes) is exercised under C12.",
 "C13": "key-identifier validation is a pure function of one parsed document; no fault, interleaving or history dimension exists for a simulator to explore (DESIGN §6).",
}

def main():
    props = [json.loads(l)["id"] for l in open(os.path.join(HERE, "properties.jsonl"))]
    try:
        hook_commits = subprocess.check_output(["git", "-C", "/repo", "log", "--format=%H", "--grep=verif-hooks"], text=True).split()
    except Exception:
        hook_commits = []
    checks = []
    for pid in props:
        if pid in CHECKS:
            eng, cat, tech, text, note, ref = CHECKS[pid]
            checks.append({
                "property_id": pid,
                "quick_cmd": f"./check {pid} --tier quick",
                "thorough_cmd": f"./check {pid} --tier thorough",
                "evidence_file": f"/verif/evidence/{pid}.json",
                "replay_cmd_template": f"./check {pid} --replay {{path}}",
                "engine": eng,
                "level_claimed": {"category": cat, "text": text, "design_ref": ref},
                "level_note": note,
                "technique": tech,
            })
    na = []
    for pid in props:
        if pid not in CHECKS:
            na.append({"property_id": pid, "reason": NOT_APPLICABLE.get(pid, "check not built yet in this round (planned, see DESIGN.md §5); not claimed until its check runs clean on the unchanged tree")})
    engines = []
    for name, path in ((E1, "/verif/sim"), (E2, "/verif/sim/src/c18.rs"), (E3, "/verif/procsim")):
        served = [p for p in props if p in CHECKS and CHECKS[p][0] == name]
        if served:
            engines.append({"name": name, "path": path, "serves_properties": served, "kind_free_text": "deterministic simulation with fault injection"})
    m = {
        "version": 1,
        "setup_cmd": "cd /verif/sim && CARGO_NET_OFFLINE=true cargo build --release --offline",
        "hooks": {
            "guard": "cargo feature `verif-hooks` on crate tough (off by default)",
            "enable": "the harness crate /verif/sim depends on /repo/tough with features [\"http\", \"verif-hooks\"]; ./check rebuilds it from /repo's working tree",
            "baseline_off_cmd": "cd /repo && cargo test --workspace --no-fail-fast --offline",
            "source_commits": hook_commits,
            "add_only": True,
        },
        "engines": engines,
        "checks": checks,
        "not_applicable": na,
        "notes": "Exit codes: 0 held, 1 VIOLATION printed, 2 harness trouble. VERIF_SEED overrides the fixed default seed. Known findings: /verif/known_findings.jsonl.",
    }
    json.dump(m, open(os.path.join(HERE, "MANIFEST.json"), "w"), indent=1)
    print("claimed:", [c["property_id"] for c in checks])

if __name__ == "__main__":
    main()
