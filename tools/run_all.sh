#!/bin/bash
# Run every claimed check at the given tier (default quick) and print one line per check.
cd "$(dirname "$0")/.."
tier="${1:-quick}"
ids=$(python3 -c "import json; print(' '.join(c['property_id'] for c in json.load(open('MANIFEST.json'))['checks']))")
rc=0
for id in $ids; do
  out=$(./check $id --tier $tier 2>&1); code=$?
  echo "$id exit=$code $(echo "$out" | grep -E '^done:|^result:' | tail -1)"
  if [ $code -ne 0 ]; then echo "$out" | grep -E "VIOLATION|HARNESS|KNOWN" | head -5; rc=1; fi
done
exit $rc
