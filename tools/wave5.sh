#!/bin/bash
# usage: wave5.sh Cxx  — confirm the change left by the wave-5 agent in /tmp/wt5-Cxx, store it under
# seeded/Cxx-agent5, then run the quick check against /repo with the patch applied and undo it.
p="$1"; lc=$(echo $p | tr A-Z a-z); wt=/tmp/wt5-$p; V=/verif
demo=$(ls $wt/tough/tests/seeded_${lc}_demo.rs $wt/tuftool/tests/seeded_${lc}_demo.rs 2>/dev/null | head -1)
[ -z "$demo" ] && { echo "no demo"; exit 2; }
pkg=$(echo "$demo" | sed -E "s#$wt/([a-z]+)/tests/.*#\1#")
feat=""; [ "$p" = C18 ] && feat="--features http"
$V/tools/confirm_seeded.sh $wt cargo test -p $pkg $feat --offline --test seeded_${lc}_demo 2>&1 | tee /tmp/w5-$p.confirm | grep -E "exit_|suite|CONFIRMED"
mkdir -p $V/seeded/$p-agent5
cp $wt/seeded/patch.diff $wt/seeded/NOTES.md $V/seeded/$p-agent5/ 2>/dev/null; cp "$demo" $V/seeded/$p-agent5/
[ -n "$(git -C /repo status --porcelain)" ] && { echo "/repo dirty"; exit 2; }
git -C /repo apply $V/seeded/$p-agent5/patch.diff || { echo "patch does not apply to /repo"; exit 2; }
( cd $V && ./check $p --tier quick > /tmp/w5-$p.check 2>&1; echo "check_exit=$?" )
git -C /repo checkout -- .
grep -E "VIOLATION|^done:|key=" /tmp/w5-$p.check | head -8
