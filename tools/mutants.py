#!/usr/bin/env python3
"""Sensitivity suite (DESIGN §9/§17): deliberate, compiling breakages of /repo, each applied to the
working tree, checked with the quick tier of the properties that should notice, and reverted.

usage: tools/mutants.py [name-prefix ...]      (no argument = all)
Writes /verif/mutants/<name>.patch (the change) and /verif/mutants/RESULTS.json.
NEVER run while something else uses /repo's working tree.
"""
import json, os, subprocess, sys, time

REPO = "/repo"
VERIF = "/verif"
L = "tough/src/lib.rs"
V = "tough/src/schema/verify.rs"
D = "tough/src/datastore.rs"
IO = "tough/src/io.rs"
S = "tough/src/schema/mod.rs"
H = "tough/src/http.rs"
C = "tough/src/cache.rs"
E = "tough/src/editor/mod.rs"
R = "tuftool/src/root.rs"
M = "tuftool/src/main.rs"
J = "olpc-cjson/src/lib.rs"

# name -> (expected-to-catch checks, [(file, old, new, count)])
MUTANTS = {
 "m01-deleg-verify-no-dedupe": (["C01", "C10"], [(V, "                        if valid_keyids.insert(&signature.keyid) {\n                            valid += 1;\n                        }\n                    }\n                }\n            }\n        }\n\n        ensure!(\n            valid >= u64::from(role_keys.threshold),\n            error::SignatureThresholdSnafu {\n                role: RoleType::Targets,",
                                                       "                        valid_keyids.insert(&signature.keyid);\n                        valid += 1;\n                    }\n                }\n            }\n        }\n\n        ensure!(\n            valid >= u64::from(role_keys.threshold),\n            error::SignatureThresholdSnafu {\n                role: RoleType::Targets,", 1)]),
 "m02-root-verify-no-dedupe": (["C01"], [(V, "                        if valid_keyids.insert(&signature.keyid) {\n                            valid += 1;\n                        }\n                    }\n                }\n            }\n        }\n\n        ensure!(\n            valid >= u64::from(role_keys.threshold),\n            error::SignatureThresholdSnafu {\n                role: T::TYPE,",
                                                  "                        valid_keyids.insert(&signature.keyid);\n                        valid += 1;\n                    }\n                }\n            }\n        }\n\n        ensure!(\n            valid >= u64::from(role_keys.threshold),\n            error::SignatureThresholdSnafu {\n                role: T::TYPE,", 1)]),
 "m03-root-verify-any-table-key": (["C01"], [(V, "        for signature in &role.signatures {\n            if role_keys.keyids.contains(&signature.keyid) {\n                if let Some(key) = self.keys.get(&signature.keyid) {\n                    if key.verify(&data, &signature.sig) {\n                        // Ignore duplicate keyids.\n                        if valid_keyids.insert(&signature.keyid) {\n                            valid += 1;\n                        }\n                    }\n                }\n            }\n        }\n\n        ensure!(\n            valid >= u64::from(role_keys.threshold),\n            error::SignatureThresholdSnafu {\n                role: T::TYPE,",
                                                      "        for signature in &role.signatures {\n            if !role_keys.keyids.is_empty() {\n                if let Some(key) = self.keys.get(&signature.keyid) {\n                    if key.verify(&data, &signature.sig) {\n                        // Ignore duplicate keyids.\n                        if valid_keyids.insert(&signature.keyid) {\n                            valid += 1;\n                        }\n                    }\n                }\n            }\n        }\n\n        ensure!(\n            valid >= u64::from(role_keys.threshold),\n            error::SignatureThresholdSnafu {\n                role: T::TYPE,", 1)]),
 "m04-snapshot-signature-not-checked": (["C01", "C12"], [(L, "    root.signed\n        .verify_role(&snapshot)\n        .context(error::VerifyMetadataSnafu {\n            role: RoleType::Snapshot,\n        })?;\n", "", 1)]),
 "m05-delegated-signature-not-checked": (["C01", "C12"], [(L, "        delegation\n            .verify_role(&role, &delegated_role.name)\n            .context(error::VerifyMetadataSnafu {\n                role: RoleType::Targets,\n            })?;\n", "", 1)]),
 "m06-new-root-own-keys-not-checked": (["C01", "C02"], [(L, "                new_root\n                    .signed\n                    .verify_role(&new_root)\n                    .context(error::VerifyMetadataSnafu {\n                        role: RoleType::Root,\n                    })?;\n", "", 1)]),
 "m07-new-root-old-keys-not-checked": (["C01", "C02"], [(L, "                root.signed\n                    .verify_role(&new_root)\n                    .context(error::VerifyMetadataSnafu {\n                        role: RoleType::Root,\n                    })?;\n", "", 1)]),
 "m08-root-lower-version-adopted": (["C02"], [(L, "                ensure!(\n                    root.signed.version <= new_root.signed.version,", "                ensure!(\n                    new_root.signed.version.get() > 0,", 1)]),
 "m09-shipped-root-not-self-verified": (["C01", "C02"], [(L, "    root.signed\n        .verify_role(&root)\n        .context(error::VerifyTrustedMetadataSnafu)?;\n", "", 1)]),
 "m10-timestamp-rollback-check-off-by-one": (["C03"], [(L, "                old_timestamp.signed.version <= timestamp.signed.version,", "                old_timestamp.signed.version.get() <= timestamp.signed.version.get() + 1,", 1)]),
 "m11-snapshot-listed-targets-not-compared": (["C03"], [(L, "                ensure!(\n                    old_targets_meta.version <= targets_meta.version,", "                ensure!(\n                    old_targets_meta.version.get() > 0 || old_targets_meta.version <= targets_meta.version,", 1)]),
 "m12-step19-compares-shipped-root": (["C03"], [(L, "    let previous_root = previous_root.as_ref().unwrap_or(&root);", "    let previous_root = previous_root.as_ref().filter(|_| false).unwrap_or(&root);", 1)]),
 "m13-snapshot-rollback-not-checked": (["C03"], [(L, "                old_snapshot.signed.version <= snapshot.signed.version,", "                old_snapshot.signed.version <= snapshot.signed.version || old_snapshot.signed.version > snapshot.signed.version,", 1)]),
 "m14-targets-expiry-not-checked-at-load": (["C04"], [(L, "    if expiration_enforcement == ExpirationEnforcement::Safe {\n        check_expired(datastore, &targets.signed).await?;\n    }\n", "", 1)]),
 "m15-read-target-ignores-expiry": (["C04"], [(L, "        if self.expiration_enforcement == ExpirationEnforcement::Safe {\n            ensure!(\n                self.datastore.system_time().await? < self.earliest_expiration,", "        if self.expiration_enforcement == ExpirationEnforcement::Safe {\n            ensure!(\n                self.datastore.system_time().await? < self.earliest_expiration || true,", 1)]),
 "m16-clock-backward-not-detected": (["C04"], [(D, "                sys_time >= latest_known_time,", "                sys_time >= latest_known_time || sys_time < latest_known_time,", 1)]),
 "m17-earliest-expiration-is-latest": (["C04"], [(L, "            expires_iter.iter().min_by_key(|tup| tup.0).unwrap();", "            expires_iter.iter().max_by_key(|tup| tup.0).unwrap();", 1)]),
 "m18-unsafe-mode-still-enforces-root": (["C04"], [(L, "    if expiration_enforcement == ExpirationEnforcement::Safe {\n        check_expired(datastore, &root.signed).await?;\n    }", "    check_expired(datastore, &root.signed).await?;", 1)]),
 "m19-snapshot-version-not-matched": (["C05"], [(L, "    ensure!(\n        snapshot.signed.version == snapshot_meta.version,", "    ensure!(\n        snapshot.signed.version >= snapshot_meta.version,", 1)]),
 "m20-snapshot-digest-not-checked": (["C05"], [(L, "    let stream = if let Some(hashes) = &snapshot_meta.hashes {\n        fetch_sha256(\n            transport,\n            url.clone(),\n            snapshot_meta.length.unwrap_or(max_snapshot_size),\n            \"timestamp.json\",\n            &hashes.sha256,\n        )\n        .await?\n    } else {",
                                                  "    let stream = if snapshot_meta.hashes.is_some() && snapshot_meta.length.is_none() {\n        fetch_sha256(\n            transport,\n            url.clone(),\n            snapshot_meta.length.unwrap_or(max_snapshot_size),\n            \"timestamp.json\",\n            &snapshot_meta.hashes.as_ref().unwrap().sha256,\n        )\n        .await?\n    } else {", 1)]),
 "m21-delegated-version-not-matched": (["C05"], [(L, "        ensure!(\n            role.signed.version == role_meta.version,", "        ensure!(\n            role.signed.version >= role_meta.version,", 1)]),
 "m22-targets-fetched-unversioned": (["C05"], [(L, "        format!(\"{}.targets.json\", targets_meta.version)", "        format!(\"{}.targets.json\", snapshot.signed.version)", 1)]),
 "m23-digest-skipped-for-empty-stream": (["C06"], [(IO, "            Poll::Ready(None) => {\n                let result = &self.digest.clone().finish();\n                if result.as_ref() != self.hash.as_slice() {", "            Poll::Ready(None) => {\n                let result = &self.digest.clone().finish();\n                if self.seen && result.as_ref() != self.hash.as_slice() {", 1),
                                                      (IO, "    hash: Vec<u8>,\n    digest: Context,\n}", "    hash: Vec<u8>,\n    digest: Context,\n    seen: bool,\n}", 1),
                                                      (IO, "            digest: Context::new(&SHA256),\n        }", "            digest: Context::new(&SHA256),\n            seen: false,\n        }", 1),
                                                      (IO, "            Poll::Ready(Some(Ok(bytes))) => {\n                self.digest.update(bytes);", "            Poll::Ready(Some(Ok(bytes))) => {\n                self.seen = self.seen || !bytes.is_empty();\n                self.digest.update(bytes);", 1)]),
 "m24-size-limit-off-by-one": (["C06", "C09"], [(IO, "        if size > max_size {", "        if size > max_size.saturating_add(1) {", 1)]),
 "m25-target-digest-not-checked": (["C06", "C08", "C19"], [(C, "        Ok(fetch_sha256(\n            self.transport.as_ref(),\n            url.clone(),\n            target.length,\n            \"targets.json\",\n            digest,\n        )", "        let _ = digest;\n        Ok(fetch_max_size(\n            self.transport.as_ref(),\n            url.clone(),\n            target.length,\n            \"targets.json\",\n        )", 1)]),
 "m27-delegated-paths-not-enforced": (["C07"], [(S, "                if !role.paths.matches_target_name(target_name) {\n                    continue;\n                }", "                if !role.paths.matches_target_name(target_name) && role.targets.is_none() {\n                    continue;\n                }", 1)]),
 "m28-validate-skipped": (["C07"], [(L, "    targets.signed.validate().context(error::InvalidPathSnafu)?;\n    Ok(targets)", "    Ok(targets)", 1)]),
 "m29-delegates-before-own-entries": (["C07"], [(S, "        if let Some(target) = self.targets.get(target_name) {\n            return Ok(target);\n        }\n        if let Some(delegations) = &self.delegations {\n            for role in &delegations.roles {\n                // If the target cannot match this DelegatedRole, then we do not want to recurse and\n                // check any of its child roles either.\n                if !role.paths.matches_target_name(target_name) {\n                    continue;\n                }\n                if let Some(targets) = &role.targets {\n                    if let Ok(target) = targets.signed.find_target(target_name) {\n                        return Ok(target);\n                    }\n                }\n            }\n        }\n",
                                                   "        if let Some(delegations) = &self.delegations {\n            for role in &delegations.roles {\n                // If the target cannot match this DelegatedRole, then we do not want to recurse and\n                // check any of its child roles either.\n                if !role.paths.matches_target_name(target_name) {\n                    continue;\n                }\n                if let Some(targets) = &role.targets {\n                    if let Ok(target) = targets.signed.find_target(target_name) {\n                        return Ok(target);\n                    }\n                }\n            }\n        }\n        if let Some(target) = self.targets.get(target_name) {\n            return Ok(target);\n        }\n", 1)]),
 "m31-save-writes-final-path-directly": (["C08"], [(L, "        let tmp = tokio::task::spawn_blocking(move || NamedTempFile::new_in(tmp_path))", "        let final_for_tmp = resolved_filepath.clone();\n        let tmp = tokio::task::spawn_blocking(move || {\n            let _ = tmp_path;\n            std::fs::File::create(&final_for_tmp).map(|f| NamedTempFile::from_parts(f, tempfile::TempPath::from_path(final_for_tmp)))\n        })", 1)]),
 "m32-save-keeps-temp-file-on-error": (["C08"], [(L, "        let (f, tmp_path) = tmp.into_parts();", "        let (f, tmp_path) = tmp.into_parts();\n        let tmp_path = tempfile::TempPath::from_path(tmp_path.keep().unwrap_or_else(|e| e.path.to_path_buf()));\n        let tmp_path = std::mem::ManuallyDrop::new(tmp_path);\n        let tmp_path: &tempfile::TempPath = &tmp_path;", 1),
                                                   (L, "        let f = NamedTempFile::from_parts(f.into_std().await, tmp_path);", "        let f = NamedTempFile::from_parts(f.into_std().await, tempfile::TempPath::from_path(tmp_path.to_path_buf()));", 1)]),
 "m33-delegated-capped-by-targets-length": (["C09", "C10"], [(L, "        let (role_size, specifier) = match role_meta.length {\n            Some(length) => (length, \"snapshot.json\"),\n            None => (max_targets_size, \"max_targets_size parameter\"),\n        };", "        let (role_size, specifier) = match snapshot.signed.meta.get(\"targets.json\").and_then(|m| m.length) {\n            Some(length) => (length, \"snapshot.json\"),\n            None => (max_targets_size, \"max_targets_size parameter\"),\n        };\n        let _ = role_meta.length;", 1)]),
 "m34-delegation-cycles-followed": (["C09"], [(L, "            !ancestors.contains(&delegated_role.name),", "            !ancestors.contains(&delegated_role.name) || ancestors.len() < 64,", 1)]),
 "m35-root-update-limit-ignored": (["C09"], [(L, "            root.signed.version.get() < original_root_version + max_root_updates,", "            root.signed.version.get() < original_root_version + max_root_updates.max(1024),", 1)]),
 "m37-snapshot-describes-wrong-length": (["C10"], [(E, "            length: Some(role.length),\n            version: role.signed.signed.version(),\n            _extra: HashMap::new(),\n        }\n    }\n\n    /// Build the `Timestamp` struct", "            length: Some(role.length + 1),\n            version: role.signed.signed.version(),\n            _extra: HashMap::new(),\n        }\n    }\n\n    /// Build the `Timestamp` struct", 1)]),
 "m38-incoming-older-role-accepted": (["C10"], [(E, "            role.signed.version >= current_targets.version,", "            role.signed.version.get() + 1 >= current_targets.version.get(),", 1)]),
 "m39-incoming-role-not-verified": (["C10"], [(E, "        parent.verify_role(&role, name)?;", "        let _ = parent.verify_role(&role, name);", 1)]),
 "m42-cjson-sorts-escaped-keys": (["C12"], [(J, "        object.obj.insert(sort_key(&key), (key, value));", "        object.obj.insert(key.clone(), (key, value));", 1)]),
 "m43-step19-never-deletes": (["C14"], [(L, "        let r1 = datastore.remove(\"timestamp.json\").await;\n        let r2 = datastore.remove(\"snapshot.json\").await;\n        r1.and(r2)?;", "        let r1: Result<()> = Ok(());\n        let r2: Result<()> = Ok(());\n        r1.and(r2)?;", 1)]),
 "m44-datastore-writes-in-place": (["C15"], [(D, "            let mut tmp = NamedTempFile::new_in(dir)?;\n            tmp.write_all(&bytes)?;\n            tmp.persist(destination).map_err(|e| e.error)?;\n            Ok(())", "            let _ = (dir, NamedTempFile::new);\n            let mut f = std::fs::File::create(destination)?;\n            f.write_all(&bytes)?;\n            Ok(())", 1)]),
 "m45-datastore-removes-before-writing": (["C15"], [(D, "            let mut tmp = NamedTempFile::new_in(dir)?;", "            let _ = std::fs::remove_file(&destination);\n            let mut tmp = NamedTempFile::new_in(dir)?;", 1)]),
 "m46-percent-not-escaped-in-role-file-names": (["C16"], [(L, "    .remove(b'~');", "    .remove(b'~')\n    .remove(b'%');", 1)]),
 "m47-slash-not-escaped-in-role-file-names": (["C16"], [(L, "    .remove(b'~');", "    .remove(b'~')\n    .remove(b'/');", 1)]),
 "m48-snapshot-extra-dropped": (["C17"], [(E, "        snapshot._extra = _extra;\n", "        let _ = _extra;\n", 1)]),
 "m49-timestamp-extra-dropped": (["C17"], [(E, "        timestamp._extra = _extra;\n", "        let _ = _extra;\n", 1)]),
 "m50-http-one-request-too-many": (["C18"], [(H, "        self.retry_state.increment(&self.settings);\n\n        let tries_left = self\n            .settings\n            .tries\n            .saturating_sub(self.retry_state.current_try);", "        let tries_left = self\n            .settings\n            .tries\n            .saturating_sub(self.retry_state.current_try);\n        self.retry_state.increment(&self.settings);", 1)]),
 "m51-range-sent-without-support": (["C18"], [(H, "        tries_left > 0 && (self.has_range_support || self.retry_state.next_byte == 0)", "        tries_left > 0", 1)]),
 "m52-gone-not-file-not-found": (["C18"], [(H, "matches!(status.as_u16(), 403 | 404 | 410)", "matches!(status.as_u16(), 403 | 404)", 1)]),
 "m53-resume-offset-stale": (["C18"], [(H, "                self.retry_state.next_byte += data.len();", "                self.retry_state.next_byte = data.len();", 1)]),
 "m54-root-chain-cache-skips-first": (["C19"], [(C, "        for ver in (1..=self.root.signed.version.get()).rev() {", "        for ver in (2..=self.root.signed.version.get()).rev() {", 1)]),
 "m55-cache-ignores-target-errors": (["C19"], [(C, "                self.cache_target(&targets_outdir, target_name).await?;\n            }\n        }", "                let _ = self.cache_target(&targets_outdir, target_name).await;\n            }\n        }", 1)]),
 "m56-set-version-keeps-signatures": (["C20"], [(R, "        root.signed.version = version;\n        clear_sigs(&mut root);", "        root.signed.version = version;", 1)]),
 "m57-root-json-written-in-place": (["C20"], [(M, "        let file =\n            NamedTempFile::new_in(&parent).context(error::FileTempCreateSnafu { path: parent })?;\n\n        let (mut file, tmp_path) = file.into_parts();", "        let file = std::fs::File::create(&path).context(error::FileTempCreateSnafu { path: parent })?;\n        let (mut file, tmp_path) = (file, tempfile::TempPath::from_path(path.clone()));", 1)]),
 "m58-sign-skips-signature-count": (["C20"], [(R, "        if threshold > signature_count as u64 {\n            // Return an error when the \"ignore-threshold\" flag wasn't set\n            if !ignore_threshold {", "        if threshold > signature_count as u64 {\n            // Return an error when the \"ignore-threshold\" flag wasn't set\n            if !ignore_threshold && signature_count == 0 {", 1)]),
 "m30-save-containment-check-removed": (["C08"], [(L, "            filepath_dir.starts_with(&outdir),", "            filepath_dir.starts_with(&outdir) || filepath_dir.is_absolute(),", 1)]),
}


def run(cmd, **kw):
    return subprocess.run(cmd, stdout=subprocess.PIPE, stderr=subprocess.STDOUT, text=True, **kw)


def clean():
    run(["git", "-C", REPO, "checkout", "--", "."])


def main():
    sel = sys.argv[1:]
    os.makedirs(os.path.join(VERIF, "mutants"), exist_ok=True)
    resp = os.path.join(VERIF, "mutants", "RESULTS.json")
    results = json.load(open(resp)) if os.path.exists(resp) else {}
    if run(["git", "-C", REPO, "status", "--porcelain"]).stdout.strip():
        print("refusing: /repo working tree is not clean")
        return 2
    for name, (checks, edits) in MUTANTS.items():
        if sel and not any(name.startswith(s) for s in sel if s != "--todo"):
            if sel != ["--todo"]:
                continue
        if "--todo" in sel and results.get(name, {}).get("expected") == checks and "caught_by" in results.get(name, {}):
            continue
        ok = True
        for f, old, new, cnt in edits:
            p = os.path.join(REPO, f)
            src = open(p).read()
            if src.count(old) != cnt:
                print("%s: pattern occurs %d times in %s (expected %d) - skipped" % (name, src.count(old), f, cnt))
                ok = False
                break
            open(p, "w").write(src.replace(old, new))
        if not ok:
            clean()
            results[name] = {"status": "pattern-mismatch"}
            continue
        diff = run(["git", "-C", REPO, "diff"]).stdout
        open(os.path.join(VERIF, "mutants", name + ".patch"), "w").write(diff)
        entry = {"expected": checks, "caught_by": [], "missed_by": [], "detail": {}}
        t0 = time.time()
        for c in checks:
            r = run([os.path.join(VERIF, "check"), c, "--tier", "quick"], cwd=VERIF, env=dict(os.environ, VERIF_WALL_S="120"))
            keys = [l.strip() for l in r.stdout.splitlines() if l.strip().startswith("key=")][:3]
            entry["detail"][c] = {"exit": r.returncode, "keys": keys, "tail": r.stdout.strip().splitlines()[-1:] }
            if r.returncode == 1 and "VIOLATION property=%s" % c in r.stdout:
                entry["caught_by"].append(c)
            else:
                entry["missed_by"].append(c)
        entry["wall_s"] = round(time.time() - t0, 1)
        clean()
        results[name] = entry
        print("%s: caught_by=%s missed_by=%s (%.0fs) %s" % (name, entry["caught_by"], entry["missed_by"], entry["wall_s"],
              {c: (d["exit"], d["keys"][:1]) for c, d in entry["detail"].items()}), flush=True)
        json.dump(results, open(resp, "w"), indent=1)
    clean()
    return 0


if __name__ == "__main__":
    sys.exit(main())
