#!/usr/bin/env python3
"""Apply every kept seeded change (/verif/seeded/<id>-agentN/patch.diff) to /repo's working tree in
turn, run the quick tier of the check of its property, undo it, and record what the check said in
/verif/seeded/RESULTS.json. Needs exclusive use of /repo's working tree (it must be clean)."""
import glob, json, os, re, subprocess, sys, time

V = "/verif"

def sh(cmd, **kw):
    return subprocess.run(cmd, stdout=subprocess.PIPE, stderr=subprocess.STDOUT, text=True, **kw)

def main():
    if sh(["git", "-C", "/repo", "status", "--porcelain"]).stdout.strip():
        print("refusing: /repo working tree is not clean"); return 2
    sel = sys.argv[1:]
    out_path = os.path.join(V, "seeded", "RESULTS.json")
    results = json.load(open(out_path)) if os.path.exists(out_path) else {}
    for d in sorted(glob.glob(os.path.join(V, "seeded", "C*-agent*"))):
        name = os.path.basename(d)
        if sel and not any(name.startswith(s) for s in sel):
            continue
        prop = name.split("-")[0]
        patch = os.path.join(d, "patch.diff")
        t0 = time.time()
        a = sh(["git", "-C", "/repo", "apply", patch])
        if a.returncode != 0:
            results[name] = {"error": "patch does not apply: " + a.stdout[-300:]}
            continue
        try:
            r = sh([os.path.join(V, "check"), prop, "--tier", "quick"], env=dict(os.environ, VERIF_TIER="quick"))
        finally:
            sh(["git", "-C", "/repo", "checkout", "--", "."])
        keys = sorted(set(re.findall(r"key=(\S+)", "\n".join(l for l in r.stdout.splitlines() if not l.startswith("KNOWN-FINDING")))))
        results[name] = {"property": prop, "exit": r.returncode, "caught": r.returncode == 1 and "VIOLATION property=%s" % prop in r.stdout,
                         "keys": keys[:8], "wall_s": round(time.time() - t0, 1)}
        print(name, "caught" if results[name]["caught"] else "MISSED exit=%d" % r.returncode, keys[:3], flush=True)
        json.dump(results, open(out_path, "w"), indent=1, sort_keys=True)
    missed = [k for k, v in results.items() if not v.get("caught")]
    print("missed:", missed)
    return 0

if __name__ == "__main__":
    sys.exit(main())
