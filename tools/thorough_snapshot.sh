#!/bin/bash
# Thorough tiers from a snapshot, for use as:  vp run --timeout 8h --with-repo -- tools/thorough_snapshot.sh [Cxx ...]
# Re-points the harness at the snapshot of /repo's HEAD ($VP_RUN_REPO) and at a target directory
# inside the snapshot, so that nothing here reads /repo's working tree or /verif/target while they
# are being edited. Results of such a run are exploratory, not evidence (see TOOLS.md).
set -u
S="$(pwd)"; R="${VP_RUN_REPO:?needs vp run --with-repo}"
sed -i "s#\"/repo/#\"$R/#g" sim/Cargo.toml
sed -i "s#/verif/target#$S/target#" sim/.cargo/config.toml
sed -i "s#cd /repo #cd $R #" check
ids="$*"; [ -z "$ids" ] && ids="C01 C02 C03 C04 C05 C06 C07 C08 C09 C10 C12 C14 C15 C16 C17 C18 C19 C20"
rc=0
for id in $ids; do
  echo "=== $id thorough $(date +%H:%M:%S)"
  VERIF_TIER= ./check "$id" --tier thorough; e=$?
  echo "=== $id exit=$e"
  [ $e -ne 0 ] && rc=1
  cp evidence/$id.json evidence/$id.thorough.json 2>/dev/null
done
exit $rc
