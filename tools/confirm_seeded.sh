#!/bin/bash
# Confirm a seeded change in its scratch worktree: demo fails with the change, passes without,
# and the existing suite (demo moved aside) passes with the change.
# usage: confirm_seeded.sh <worktree> <demo command...>   (run from anywhere)
wt="$1"; shift
cd "$wt" || exit 2
export CARGO_NET_OFFLINE=true; unset RUST_BACKTRACE
echo "### demo WITH change"; ( "$@" ) > /tmp/confirm.$$.with 2>&1; w=$?; tail -5 /tmp/confirm.$$.with; echo "exit_with=$w"
git apply -R seeded/patch.diff || { echo "cannot revert"; exit 2; }
echo "### demo WITHOUT change"; ( "$@" ) > /tmp/confirm.$$.without 2>&1; wo=$?; tail -3 /tmp/confirm.$$.without; echo "exit_without=$wo"
git apply seeded/patch.diff || { echo "cannot re-apply"; exit 2; }
echo "### existing suite WITH change (demo moved aside)"
mkdir -p /tmp/aside.$$/tough /tmp/aside.$$/tuftool
for d in tough tuftool; do for f in $d/tests/seeded_*; do [ -e "$f" ] && mv "$f" /tmp/aside.$$/$d/; done; done
cargo test --workspace --no-fail-fast --offline > /tmp/confirm.$$.suite 2>&1; s=$?
for d in tough tuftool; do for f in /tmp/aside.$$/$d/*; do [ -e "$f" ] && mv "$f" $d/tests/; done; done; rm -rf /tmp/aside.$$
grep -E "^test result" /tmp/confirm.$$.suite | awk '{p+=$4; f+=$6} END {print "suite passed",p,"failed",f}'; echo "suite_exit=$s"
rm -f /tmp/confirm.$$.*
[ $w -ne 0 ] && [ $wo -eq 0 ] && [ $s -eq 0 ] && echo "CONFIRMED" || echo "NOT CONFIRMED"
