//! The harness's own JSON tree, emitter and reference OLPC canonical-JSON encoder (`refcanon`).
//! Shares no code with olpc-cjson. Objects are ordered vectors so that member order and duplicate
//! members are under the harness's control.

use serde_json::Value;

#[derive(Clone, Debug, PartialEq, Eq)]
pub enum J {
    Null,
    Bool(bool),
    Int(u64),
    Str(String),
    Arr(Vec<J>),
    Obj(Vec<(String, J)>),
}

pub fn s(x: &str) -> J {
    J::Str(x.to_string())
}
pub fn n(x: u64) -> J {
    J::Int(x)
}
pub fn obj(members: Vec<(&str, J)>) -> J {
    J::Obj(members.into_iter().map(|(k, v)| (k.to_string(), v)).collect())
}

impl J {
    pub fn get(&self, k: &str) -> Option<&J> {
        match self {
            J::Obj(m) => m.iter().find(|(kk, _)| kk == k).map(|(_, v)| v),
            _ => None,
        }
    }
    pub fn get_mut(&mut self, k: &str) -> Option<&mut J> {
        match self {
            J::Obj(m) => m.iter_mut().find(|(kk, _)| kk == k).map(|(_, v)| v),
            _ => None,
        }
    }
    pub fn set(&mut self, k: &str, v: J) {
        if let J::Obj(m) = self {
            if let Some(e) = m.iter_mut().find(|(kk, _)| kk == k) {
                e.1 = v;
            } else {
                m.push((k.to_string(), v));
            }
        } else {
            panic!("set on non-object");
        }
    }
    pub fn remove(&mut self, k: &str) -> Option<J> {
        if let J::Obj(m) = self {
            if let Some(i) = m.iter().position(|(kk, _)| kk == k) {
                return Some(m.remove(i).1);
            }
        }
        None
    }
    pub fn as_str(&self) -> Option<&str> {
        match self {
            J::Str(s) => Some(s),
            _ => None,
        }
    }
    pub fn as_u64(&self) -> Option<u64> {
        match self {
            J::Int(i) => Some(*i),
            _ => None,
        }
    }
    pub fn members(&self) -> &[(String, J)] {
        match self {
            J::Obj(m) => m,
            _ => &[],
        }
    }
    pub fn items(&self) -> &[J] {
        match self {
            J::Arr(a) => a,
            _ => &[],
        }
    }

    pub fn from_value(v: &Value) -> J {
        match v {
            Value::Null => J::Null,
            Value::Bool(b) => J::Bool(*b),
            Value::Number(n) => J::Int(n.as_u64().expect("harness only handles u64 numbers")),
            Value::String(s) => J::Str(s.clone()),
            Value::Array(a) => J::Arr(a.iter().map(J::from_value).collect()),
            Value::Object(m) => {
                J::Obj(m.iter().map(|(k, v)| (k.clone(), J::from_value(v))).collect())
            }
        }
    }

    pub fn try_from_value(v: &Value) -> Option<J> {
        Some(match v {
            Value::Null => J::Null,
            Value::Bool(b) => J::Bool(*b),
            Value::Number(n) => J::Int(n.as_u64()?),
            Value::String(s) => J::Str(s.clone()),
            Value::Array(a) => {
                let mut out = Vec::new();
                for x in a {
                    out.push(J::try_from_value(x)?);
                }
                J::Arr(out)
            }
            Value::Object(m) => {
                let mut out = Vec::new();
                for (k, v) in m {
                    out.push((k.clone(), J::try_from_value(v)?));
                }
                J::Obj(out)
            }
        })
    }

    pub fn to_value(&self) -> Value {
        match self {
            J::Null => Value::Null,
            J::Bool(b) => Value::Bool(*b),
            J::Int(i) => Value::Number((*i).into()),
            J::Str(s) => Value::String(s.clone()),
            J::Arr(a) => Value::Array(a.iter().map(J::to_value).collect()),
            J::Obj(m) => Value::Object(m.iter().map(|(k, v)| (k.clone(), v.to_value())).collect()),
        }
    }

    pub fn parse(bytes: &[u8]) -> Option<J> {
        let v: Value = serde_json::from_slice(bytes).ok()?;
        J::try_from_value(&v)
    }
}

/// Reference OLPC canonical JSON (DESIGN §3.1): members sorted by the code points of the
/// unescaped key, only `"` and `\` escaped, no whitespace. Returns None on duplicate keys.
pub fn canon(j: &J) -> Option<Vec<u8>> {
    let mut out = Vec::new();
    canon_into(j, &mut out)?;
    Some(out)
}

fn canon_str(st: &str, out: &mut Vec<u8>) {
    out.push(b'"');
    for b in st.bytes() {
        if b == b'"' || b == b'\\' {
            out.push(b'\\');
        }
        out.push(b);
    }
    out.push(b'"');
}

fn canon_into(j: &J, out: &mut Vec<u8>) -> Option<()> {
    match j {
        J::Null => out.extend_from_slice(b"null"),
        J::Bool(true) => out.extend_from_slice(b"true"),
        J::Bool(false) => out.extend_from_slice(b"false"),
        J::Int(i) => out.extend_from_slice(i.to_string().as_bytes()),
        J::Str(st) => canon_str(st, out),
        J::Arr(a) => {
            out.push(b'[');
            for (i, x) in a.iter().enumerate() {
                if i > 0 {
                    out.push(b',');
                }
                canon_into(x, out)?;
            }
            out.push(b']');
        }
        J::Obj(m) => {
            let mut idx: Vec<usize> = (0..m.len()).collect();
            // UTF-8 byte order == code point order
            idx.sort_by(|a, b| m[*a].0.as_bytes().cmp(m[*b].0.as_bytes()));
            for w in idx.windows(2) {
                if m[w[0]].0 == m[w[1]].0 {
                    return None;
                }
            }
            out.push(b'{');
            for (i, ix) in idx.iter().enumerate() {
                if i > 0 {
                    out.push(b',');
                }
                canon_str(&m[*ix].0, out);
                out.push(b':');
                canon_into(&m[*ix].1, out)?;
            }
            out.push(b'}');
        }
    }
    Some(())
}

#[derive(Clone, Copy, Debug, PartialEq, Eq, serde::Serialize, serde::Deserialize)]
pub enum Style {
    /// no whitespace, members in stored order
    Compact,
    /// 1-space indentation, newline separated
    Pretty,
    /// compact, members of every object in reverse stored order
    Reversed,
    /// pretty with tabs and trailing newline
    Tabs,
}

fn emit_str(st: &str, out: &mut Vec<u8>) {
    // ordinary JSON string escaping (valid for any parser)
    out.push(b'"');
    for c in st.chars() {
        match c {
            '"' => out.extend_from_slice(b"\\\""),
            '\\' => out.extend_from_slice(b"\\\\"),
            '\n' => out.extend_from_slice(b"\\n"),
            '\r' => out.extend_from_slice(b"\\r"),
            '\t' => out.extend_from_slice(b"\\t"),
            c if (c as u32) < 0x20 => out.extend_from_slice(format!("\\u{:04x}", c as u32).as_bytes()),
            c => {
                let mut buf = [0u8; 4];
                out.extend_from_slice(c.encode_utf8(&mut buf).as_bytes());
            }
        }
    }
    out.push(b'"');
}

pub fn emit(j: &J, style: Style) -> Vec<u8> {
    let mut out = Vec::new();
    emit_into(j, style, 0, &mut out);
    if style == Style::Tabs {
        out.push(b'\n');
    }
    out
}

fn nl(style: Style, depth: usize, out: &mut Vec<u8>) {
    match style {
        Style::Pretty => {
            out.push(b'\n');
            for _ in 0..depth {
                out.push(b' ');
            }
        }
        Style::Tabs => {
            out.push(b'\n');
            for _ in 0..depth {
                out.push(b'\t');
            }
        }
        _ => {}
    }
}

fn emit_into(j: &J, style: Style, depth: usize, out: &mut Vec<u8>) {
    match j {
        J::Null => out.extend_from_slice(b"null"),
        J::Bool(true) => out.extend_from_slice(b"true"),
        J::Bool(false) => out.extend_from_slice(b"false"),
        J::Int(i) => out.extend_from_slice(i.to_string().as_bytes()),
        J::Str(st) => emit_str(st, out),
        J::Arr(a) => {
            out.push(b'[');
            for (i, x) in a.iter().enumerate() {
                if i > 0 {
                    out.push(b',');
                }
                nl(style, depth + 1, out);
                emit_into(x, style, depth + 1, out);
            }
            if !a.is_empty() {
                nl(style, depth, out);
            }
            out.push(b']');
        }
        J::Obj(m) => {
            out.push(b'{');
            let order: Vec<usize> = if style == Style::Reversed {
                (0..m.len()).rev().collect()
            } else {
                (0..m.len()).collect()
            };
            for (i, ix) in order.iter().enumerate() {
                if i > 0 {
                    out.push(b',');
                }
                nl(style, depth + 1, out);
                emit_str(&m[*ix].0, out);
                out.push(b':');
                if matches!(style, Style::Pretty | Style::Tabs) {
                    out.push(b' ');
                }
                emit_into(&m[*ix].1, style, depth + 1, out);
            }
            if !m.is_empty() {
                nl(style, depth, out);
            }
            out.push(b'}');
        }
    }
}

pub fn sha256(data: &[u8]) -> Vec<u8> {
    aws_lc_rs::digest::digest(&aws_lc_rs::digest::SHA256, data)
        .as_ref()
        .to_vec()
}

pub fn sha256_hex(data: &[u8]) -> String {
    hex::encode(sha256(data))
}
