//! Worlds in which tough's real editor is the publisher (C10, C17): a reference model of what was
//! put in, the program that drives `RepositoryEditor`, a directory-backed transport for reloading
//! what was written, and the comparison of a loaded repository with the model.

use crate::json::{self, J};
use crate::keys::{self, Alg, K};
use crate::prng::Rng;
use crate::publisher::*;
use crate::transport::{pct_decode, Base, Resp, SimTransport};
use serde::{Deserialize, Serialize};
use std::collections::{BTreeMap, HashMap};
use std::num::NonZeroU64;
use std::path::{Path, PathBuf};
use tough::editor::signed::PathExists;
use tough::editor::RepositoryEditor;
use tough::key_source::KeySource;
use tough::schema::decoded::Decoded;
use tough::schema::{Hashes, PathPattern, PathSet, Target};
use tough::{Repository, TargetName};

pub const DAY: i64 = 86400;
pub const INCOMING_BASE: &str = "https://sim.invalid/incoming/";

#[derive(Clone, Debug, Serialize, Deserialize, PartialEq)]
pub struct TargetM {
    pub name: String,
    pub size: usize,
    pub seed: u64,
    /// 0 = no custom data
    pub custom: u8,
}

#[derive(Clone, Debug, Serialize, Deserialize)]
pub struct RoleM {
    pub name: String,
    /// (algorithm, key number); for the top-level role these are the root's targets keys
    pub keys: Vec<(Alg, u64)>,
    pub thr: u64,
    pub paths: Vec<String>,
    pub version: u64,
    pub expires_days: i64,
    pub targets: Vec<TargetM>,
    pub children: Vec<RoleM>,
    /// editing noise: targets added and removed again, versions set twice, ...
    pub noise: u64,
}

impl TargetM {
    pub fn content(&self) -> Vec<u8> {
        Rng::new(self.seed).bytes(self.size)
    }
    pub fn custom_json(&self) -> Option<J> {
        match self.custom {
            0 => None,
            1 => Some(json::obj(vec![("kind", json::s("blob")), ("rank", json::n(7))])),
            2 => Some(json::obj(vec![("nested", json::obj(vec![("a", J::Arr(vec![json::n(1), json::n(2)])), ("b", J::Null)]))])),
            _ => Some(json::obj(vec![("note", json::s("with space and ünïcode"))])),
        }
    }
    pub fn to_target(&self) -> Target {
        let c = self.content();
        let custom: HashMap<String, serde_json::Value> = match self.custom_json() {
            Some(J::Obj(m)) => m.into_iter().map(|(k, v)| (k, v.to_value())).collect(),
            _ => HashMap::new(),
        };
        Target {
            length: c.len() as u64,
            hashes: Hashes { sha256: Decoded::from(json::sha256(&c)), _extra: HashMap::new() },
            custom,
            _extra: HashMap::new(),
        }
    }
}

pub fn role_key(world: u64, k: &(Alg, u64)) -> K {
    match k.0 {
        Alg::Ed25519 => keys::ed(world, 700 + k.1),
        a => keys::key(world, a, k.1),
    }
}

impl RoleM {
    pub fn key_objs(&self, world: u64) -> Vec<K> {
        self.keys.iter().map(|k| role_key(world, k)).collect()
    }
    pub fn sources(&self, world: u64) -> Vec<Box<dyn KeySource>> {
        self.key_objs(world).iter().map(|k| k.source()).collect()
    }
    pub fn walk<'a>(&'a self, out: &mut Vec<&'a RoleM>) {
        out.push(self);
        for c in &self.children {
            c.walk(out);
        }
    }
    pub fn find(&self, name: &str) -> Option<&RoleM> {
        if self.name == name {
            return Some(self);
        }
        self.children.iter().find_map(|c| c.find(name))
    }
    pub fn find_mut(&mut self, name: &str) -> Option<&mut RoleM> {
        if self.name == name {
            return Some(self);
        }
        self.children.iter_mut().find_map(|c| c.find_mut(name))
    }
}

pub fn nz(v: u64) -> NonZeroU64 {
    NonZeroU64::new(v.max(1)).unwrap()
}

/// Standard root of editor worlds: one Ed25519 key per top-level role (targets may have more).
pub fn editor_root(world: u64, consistent: bool, targets_keys: &RoleKeys) -> (RootSpec, Doc) {
    let spec = RootSpec {
        version: 1,
        expires: T0 + 3650 * DAY,
        consistent_snapshot: consistent,
        root: RoleKeys::one(&keys::ed(world, 1)),
        timestamp: RoleKeys::one(&keys::ed(world, 2)),
        snapshot: RoleKeys::one(&keys::ed(world, 3)),
        targets: targets_keys.clone(),
    };
    let doc = Doc::signed_by(spec.signed(), &[keys::ed(world, 1)]);
    (spec, doc)
}

/// Target names for role prefix `p` that match the path patterns `[p-*, p/*]`.
pub fn gen_targets(r: &mut Rng, prefix: &str, max: usize, big: bool) -> Vec<TargetM> {
    let n = r.usize_below(max + 1);
    let mut out: Vec<TargetM> = Vec::new();
    let stems = ["a.bin", "b", "with space.txt", "ünï.dat", "x.tar.gz", "sub/c.bin", "sub/deep/d", "e~1", "f+g", "1.root.json"];
    for i in 0..n {
        let stem = if big { format!("file-{i:03}") } else { (*r.pick(&stems)).to_string() };
        let name = if stem.contains('/') { format!("{prefix}/{stem}") } else { format!("{prefix}-{stem}") };
        if out.iter().any(|t| t.name == name) {
            continue;
        }
        let size = match r.below(5) {
            0 => 0,
            1 => r.usize_below(32 * 1024),
            _ => r.usize_below(300),
        };
        out.push(TargetM { name, size, seed: r.next_u64(), custom: if r.chance(1, 3) { 1 + r.below(3) as u8 } else { 0 } });
    }
    out
}

pub fn gen_role(r: &mut Rng, prefix: String, depth: usize, counter: &mut u64) -> RoleM {
    let nkeys = 1 + r.usize_below(3);
    let thr = 1 + r.below(nkeys as u64);
    let keys: Vec<(Alg, u64)> = (0..nkeys)
        .map(|_| {
            *counter += 1;
            let alg = if r.chance(3, 4) { Alg::Ed25519 } else if r.chance(1, 2) { Alg::Ecdsa } else { Alg::Rsa };
            (alg, if alg == Alg::Ed25519 { *counter } else { *counter % 6 })
        })
        .collect();
    // distinct fixture keys inside one role
    let mut keys2: Vec<(Alg, u64)> = Vec::new();
    for k in keys {
        if !keys2.contains(&k) {
            keys2.push(k);
        }
    }
    let thr = thr.min(keys2.len() as u64);
    let big = r.chance(1, 8);
    let targets = gen_targets(r, &prefix, if big { 40 } else { 3 }, big);
    let mut children = Vec::new();
    if depth < 3 {
        for j in 0..r.usize_below(if depth == 1 { 3 } else { 2 }) {
            children.push(gen_role(r, format!("{prefix}-{}", (b'p' + j as u8) as char), depth + 1, counter));
        }
    }
    RoleM {
        name: prefix.clone(),
        keys: keys2,
        thr,
        paths: vec![format!("{prefix}-*"), format!("{prefix}/*")],
        version: 2 + r.below(5),
        expires_days: 1 + r.below(400) as i64,
        targets,
        children,
        noise: r.next_u64(),
    }
}

pub fn path_set(paths: &[String]) -> Result<PathSet, String> {
    let mut v = Vec::new();
    for p in paths {
        v.push(PathPattern::new(p.clone()).map_err(|e| format!("pattern {p}: {e}"))?);
    }
    Ok(PathSet::Paths(v))
}

/// Apply the target edits of one role to the editor's current targets editor, with noise.
pub fn edit_targets(ed: &mut RepositoryEditor, role: &RoleM, stage: &mut String) -> Result<(), String> {
    let mut r = Rng::new(role.noise);
    *stage = format!("edit {}", role.name);
    if r.chance(1, 4) {
        // a target that is added and removed again
        let t = TargetM { name: format!("{}-temp", role.name), size: 5, seed: 1, custom: 0 };
        ed.add_target(t.name.as_str(), t.to_target()).map_err(|e| crate::classify::variant(&e))?;
        let tn = TargetName::new(t.name.clone()).map_err(|e| format!("{e}"))?;
        ed.remove_target(&tn).map_err(|e| crate::classify::variant(&e))?;
    }
    if r.chance(1, 6) {
        // everything added so far is thrown away
        let t = TargetM { name: format!("{}-early", role.name), size: 3, seed: 2, custom: 0 };
        ed.add_target(t.name.as_str(), t.to_target()).map_err(|e| crate::classify::variant(&e))?;
        ed.clear_targets().map_err(|e| crate::classify::variant(&e))?;
    }
    for t in &role.targets {
        if r.chance(1, 5) {
            // first with other content, then replaced
            let other = TargetM { seed: t.seed ^ 0xffff, size: t.size + 1, ..t.clone() };
            ed.add_target(t.name.as_str(), other.to_target()).map_err(|e| crate::classify::variant(&e))?;
        }
        ed.add_target(t.name.as_str(), t.to_target()).map_err(|e| crate::classify::variant(&e))?;
    }
    if r.chance(1, 3) {
        ed.targets_version(nz(role.version + 9)).map_err(|e| crate::classify::variant(&e))?;
    }
    ed.targets_version(nz(role.version)).map_err(|e| crate::classify::variant(&e))?;
    ed.targets_expires(dt(T0 + role.expires_days * DAY)).map_err(|e| crate::classify::variant(&e))?;
    Ok(())
}

/// Drive the real editor through the whole tree (pre-order), as a repository owner holding all
/// keys would. `stage` names the step that failed.
pub async fn drive_editor(ed: &mut RepositoryEditor, world: u64, top: &RoleM, stage: &mut String) -> Result<(), String> {
    edit_targets(ed, top, stage)?;
    for c in &top.children {
        *stage = format!("delegate {}", c.name);
        ed.delegate_role(&c.name, &c.sources(world), path_set(&c.paths)?, nz(c.thr), dt(T0 + c.expires_days * DAY), nz(c.version))
            .await
            .map_err(|e| crate::classify::variant(&e))?;
    }
    *stage = format!("sign_targets_editor {}", top.name);
    ed.sign_targets_editor(&top.sources(world)).await.map_err(|e| crate::classify::variant(&e))?;
    // iterative pre-order descent (async recursion avoided)
    let mut stack: Vec<&RoleM> = top.children.iter().rev().collect();
    while let Some(role) = stack.pop() {
        *stage = format!("change_delegated_targets {}", role.name);
        ed.change_delegated_targets(&role.name).map_err(|e| crate::classify::variant(&e))?;
        edit_targets(ed, role, stage)?;
        for c in &role.children {
            *stage = format!("delegate {}", c.name);
            ed.delegate_role(&c.name, &c.sources(world), path_set(&c.paths)?, nz(c.thr), dt(T0 + c.expires_days * DAY), nz(c.version))
                .await
                .map_err(|e| crate::classify::variant(&e))?;
        }
        *stage = format!("sign_targets_editor {}", role.name);
        ed.sign_targets_editor(&role.sources(world)).await.map_err(|e| crate::classify::variant(&e))?;
        for c in role.children.iter().rev() {
            stack.push(c);
        }
    }
    Ok(())
}

/// Put the target files where a publisher would: flat names through the editor's own
/// copy/link walker, names with sub-directories by hand (the walker matches on file names only).
pub async fn publish_targets(
    signed: &tough::editor::signed::SignedRepository,
    consistent: bool,
    all: &[&TargetM],
    indir: &Path,
    outdir: &Path,
    link: bool,
) -> Result<(), String> {
    std::fs::create_dir_all(indir).map_err(|e| e.to_string())?;
    std::fs::create_dir_all(outdir).map_err(|e| e.to_string())?;
    for t in all {
        if !t.name.contains('/') {
            std::fs::write(indir.join(&t.name), t.content()).map_err(|e| e.to_string())?;
        }
    }
    if link {
        signed.link_targets(indir, outdir, PathExists::Skip).await.map_err(|e| format!("link_targets: {}", crate::classify::variant(&e)))?;
    } else {
        signed.copy_targets(indir, outdir, PathExists::Fail).await.map_err(|e| format!("copy_targets: {}", crate::classify::variant(&e)))?;
    }
    for t in all {
        if t.name.contains('/') {
            let c = t.content();
            let rel = crate::world::target_file_name(consistent, &t.name, &c);
            let p = outdir.join(rel);
            if let Some(parent) = p.parent() {
                std::fs::create_dir_all(parent).map_err(|e| e.to_string())?;
            }
            std::fs::write(p, c).map_err(|e| e.to_string())?;
        }
    }
    Ok(())
}

/// A transport that serves what is on disk, the way a plain web server would: metadata file names
/// literally, target paths percent-decoded; plus an "incoming" directory for the cross-party flow.
pub fn dir_transport(meta: PathBuf, targets: PathBuf, incoming: Option<PathBuf>) -> SimTransport {
    SimTransport::new(move |r| {
        let read = |p: PathBuf| match std::fs::read(&p) {
            Ok(b) => Resp::whole(&b),
            Err(_) => Resp::not_found(),
        };
        match r.base {
            Base::Metadata => {
                if r.rel.contains('/') || r.rel.contains("..") && r.rel.len() <= 2 {
                    return Resp::not_found();
                }
                read(meta.join(&r.rel))
            }
            Base::Targets => {
                let d = pct_decode(&r.rel);
                if d.split('/').any(|s| s == "..") {
                    return Resp::not_found();
                }
                read(targets.join(d))
            }
            Base::Unknown => match (&incoming, r.rel.strip_prefix(INCOMING_BASE)) {
                (Some(dir), Some(rest)) if !rest.contains('/') => read(dir.join(rest)),
                _ => Resp::not_found(),
            },
        }
    })
}

pub fn hexs(b: &[u8]) -> String {
    hex::encode(b)
}

/// Compare a loaded repository with the model; returns human-readable mismatches.
pub fn compare(repo: &Repository, world: u64, top: &RoleM, snap_v: u64, ts_v: u64) -> Vec<String> {
    let mut out = Vec::new();
    let check_targets = |what: &str, have: &HashMap<TargetName, Target>, want: &[TargetM], out: &mut Vec<String>| {
        let mut h: BTreeMap<String, (u64, String, String)> = BTreeMap::new();
        for (n, t) in have {
            let custom = json::canon(&J::from_value(&serde_json::to_value(&t.custom).unwrap_or_default())).map(|c| String::from_utf8_lossy(&c).to_string()).unwrap_or_default();
            h.insert(n.raw().to_string(), (t.length, hexs(&t.hashes.sha256), custom));
        }
        let mut w: BTreeMap<String, (u64, String, String)> = BTreeMap::new();
        for t in want {
            let c = t.content();
            let custom = t.custom_json().unwrap_or(J::Obj(vec![]));
            w.insert(t.name.clone(), (c.len() as u64, json::sha256_hex(&c), String::from_utf8_lossy(&json::canon(&custom).unwrap()).to_string()));
        }
        if h != w {
            let missing: Vec<&String> = w.keys().filter(|k| !h.contains_key(*k)).collect();
            let extra: Vec<&String> = h.keys().filter(|k| !w.contains_key(*k)).collect();
            let diff: Vec<&String> = w.keys().filter(|k| h.get(*k).is_some_and(|v| v != &w[*k])).collect();
            out.push(format!("{what}: targets differ (missing {missing:?}, unexpected {extra:?}, changed {diff:?})"));
        }
    };
    let t = &repo.targets().signed;
    check_targets("targets", &t.targets, &top.targets, &mut out);
    if t.version.get() != top.version {
        out.push(format!("targets version {} != {}", t.version, top.version));
    }
    if t.expires != dt(T0 + top.expires_days * DAY) {
        out.push(format!("targets expires {} != T0+{}d", t.expires, top.expires_days));
    }
    if repo.snapshot().signed.version.get() != snap_v {
        out.push(format!("snapshot version {} != {snap_v}", repo.snapshot().signed.version));
    }
    if repo.timestamp().signed.version.get() != ts_v {
        out.push(format!("timestamp version {} != {ts_v}", repo.timestamp().signed.version));
    }
    // delegation structure
    let mut roles = Vec::new();
    for c in &top.children {
        c.walk(&mut roles);
    }
    let have_names: Vec<String> = t.role_names().into_iter().cloned().collect();
    let want_names: Vec<String> = roles.iter().map(|r| r.name.clone()).collect();
    if have_names != want_names {
        out.push(format!("delegated roles (pre-order) {have_names:?} != {want_names:?}"));
    }
    for r in roles {
        match repo.delegated_role(&r.name) {
            None => out.push(format!("role {} missing", r.name)),
            Some(d) => {
                if d.threshold.get() != r.thr {
                    out.push(format!("role {} threshold {} != {}", r.name, d.threshold, r.thr));
                }
                let mut have: Vec<String> = d.keyids.iter().map(|k| hexs(k)).collect();
                have.sort();
                let mut want: Vec<String> = r.key_objs(world).iter().map(|k| k.id.clone()).collect();
                want.sort();
                if have != want {
                    out.push(format!("role {} keyids differ", r.name));
                }
                match &d.paths {
                    PathSet::Paths(p) => {
                        let have: Vec<String> = p.iter().map(|x| x.value().to_string()).collect();
                        if have != r.paths {
                            out.push(format!("role {} paths {have:?} != {:?}", r.name, r.paths));
                        }
                    }
                    PathSet::PathHashPrefixes(_) => out.push(format!("role {} has hash prefixes", r.name)),
                }
                match &d.targets {
                    None => out.push(format!("role {} has no loaded targets", r.name)),
                    Some(s) => {
                        check_targets(&r.name, &s.signed.targets, &r.targets, &mut out);
                        if s.signed.version.get() != r.version {
                            out.push(format!("role {} version {} != {}", r.name, s.signed.version, r.version));
                        }
                        if s.signed.expires != dt(T0 + r.expires_days * DAY) {
                            out.push(format!("role {} expires {} != T0+{}d", r.name, s.signed.expires, r.expires_days));
                        }
                    }
                }
            }
        }
    }
    out
}

/// Compare every snapshot / timestamp meta entry with the file actually written.
pub fn compare_meta_with_files(repo: &Repository, meta_dir: &Path, consistent: bool) -> Vec<String> {
    let mut out = Vec::new();
    let check = |entry: &str, m: &tough::schema::Metafile, file: PathBuf, out: &mut Vec<String>| match std::fs::read(&file) {
        Err(_) => out.push(format!("{entry}: described file {} was not written", file.display())),
        Ok(b) => {
            if m.length != Some(b.len() as u64) {
                out.push(format!("{entry}: length {:?} but the written file has {} bytes", m.length, b.len()));
            }
            match &m.hashes {
                Some(h) if h.sha256.as_ref() == json::sha256(&b).as_slice() => {}
                Some(_) => out.push(format!("{entry}: sha256 does not match the written file")),
                None => out.push(format!("{entry}: no sha256")),
            }
            if let Some(j) = J::parse(&b) {
                let v = j.get("signed").and_then(|s| s.get("version")).and_then(J::as_u64);
                if v != Some(m.version.get()) {
                    out.push(format!("{entry}: version {} but the written file has {v:?}", m.version));
                }
            }
        }
    };
    for (name, m) in &repo.snapshot().signed.meta {
        let stem = name.strip_suffix(".json").unwrap_or(name);
        let enc = quote_role_name(stem);
        let file = if consistent { format!("{}.{enc}.json", m.version) } else { format!("{enc}.json") };
        check(&format!("snapshot.meta[{name}]"), m, meta_dir.join(file), &mut out);
    }
    for (name, m) in &repo.timestamp().signed.meta {
        let file = if consistent { format!("{}.{name}", m.version) } else { name.clone() };
        check(&format!("timestamp.meta[{name}]"), m, meta_dir.join(file), &mut out);
    }
    out
}
