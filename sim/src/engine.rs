//! Batch driver: seeded generation, parallel execution, oracle verdict collection, minimisation,
//! replay files, known-finding matching and evidence.

use crate::prng::{hash_str, mix};
use serde::{de::DeserializeOwned, Serialize};
use serde_json::{json, Value};
use std::collections::{BTreeMap, BTreeSet, HashSet};
use std::path::{Path, PathBuf};
use std::sync::atomic::{AtomicBool, AtomicU64, Ordering};
use std::sync::Mutex;
use std::time::Instant;

#[derive(Clone, Copy, Debug, PartialEq, Eq)]
pub enum Tier {
    Quick,
    Thorough,
}

impl Tier {
    pub fn name(self) -> &'static str {
        match self {
            Tier::Quick => "quick",
            Tier::Thorough => "thorough",
        }
    }
}

#[derive(Clone, Debug)]
pub enum Verdict {
    Pass,
    /// `key` identifies the failing input class (used for known-finding matching and for
    /// "same violation" during minimisation); `detail` is free text.
    Violation { key: String, detail: String },
    /// the property does not judge this outcome (class says why)
    Inconclusive(String),
    /// the harness itself misbehaved (exit 2)
    Harness(String),
}

#[derive(Clone, Debug)]
pub struct Outcome {
    pub verdict: Verdict,
    /// canonical event trace of the run (no wall-clock values, no randomised bytes)
    pub trace: String,
    pub faults: BTreeMap<String, u64>,
    pub probes: BTreeMap<String, u64>,
    pub sim_time_s: u64,
    /// a fault fired and the deciding branch of the property was reached
    pub nontrivial: bool,
}

impl Outcome {
    pub fn new() -> Self {
        Outcome {
            verdict: Verdict::Pass,
            trace: String::new(),
            faults: BTreeMap::new(),
            probes: BTreeMap::new(),
            sim_time_s: 0,
            nontrivial: false,
        }
    }
    pub fn fault(&mut self, k: &str) {
        *self.faults.entry(k.to_string()).or_insert(0) += 1;
    }
    pub fn fault_n(&mut self, k: &str, n: u64) {
        if n > 0 {
            *self.faults.entry(k.to_string()).or_insert(0) += n;
        }
    }
    pub fn probe(&mut self, k: &str) {
        *self.probes.entry(k.to_string()).or_insert(0) += 1;
    }
    pub fn probe_n(&mut self, k: &str, n: u64) {
        if n > 0 {
            *self.probes.entry(k.to_string()).or_insert(0) += n;
        }
    }
    pub fn ev(&mut self, s: impl AsRef<str>) {
        self.trace.push_str(s.as_ref());
        self.trace.push('\n');
    }
    pub fn violate(&mut self, key: impl Into<String>, detail: impl Into<String>) {
        // the first violation of a run wins (keeps keys stable under minimisation)
        if !matches!(self.verdict, Verdict::Violation { .. } | Verdict::Harness(_)) {
            self.verdict = Verdict::Violation { key: key.into(), detail: detail.into() };
        }
    }
    pub fn inconclusive(&mut self, class: impl Into<String>) {
        if matches!(self.verdict, Verdict::Pass) {
            self.verdict = Verdict::Inconclusive(class.into());
        }
    }
    pub fn harness(&mut self, msg: impl Into<String>) {
        self.verdict = Verdict::Harness(msg.into());
    }
}

impl Default for Outcome {
    fn default() -> Self {
        Self::new()
    }
}

pub trait Check: Sync + Send {
    type Scenario: Serialize + DeserializeOwned + Clone + Send + std::fmt::Debug;
    fn id(&self) -> &'static str;
    fn level(&self) -> &'static str {
        "exploration"
    }
    fn rule(&self) -> String;
    fn assumptions(&self) -> Vec<String>;
    fn components(&self) -> Value;
    /// number of seeded scenarios for the tier
    fn runs(&self, tier: Tier) -> u64;
    /// number of enumerated (non-seeded) scenarios that precede the seeded ones
    fn enumerated(&self, _tier: Tier) -> u64 {
        0
    }
    /// scenario number `index` of the enumerated prefix
    fn enumerate(&self, _index: u64, _tier: Tier) -> Option<Self::Scenario> {
        None
    }
    fn generate(&self, seed: u64, tier: Tier) -> Self::Scenario;
    fn run(&self, sc: &Self::Scenario) -> Outcome;
    /// simpler variants of a failing scenario, most aggressive first
    fn shrink(&self, _sc: &Self::Scenario) -> Vec<Self::Scenario> {
        Vec::new()
    }
    /// fault counters that must have fired at least once in a batch (else harness error)
    fn required_faults(&self, _tier: Tier) -> Vec<&'static str> {
        Vec::new()
    }
    fn required_probes(&self, _tier: Tier) -> Vec<&'static str> {
        Vec::new()
    }
    /// abbreviated description of a scenario for the evidence file
    fn sample(&self, sc: &Self::Scenario) -> Value {
        serde_json::to_value(sc).unwrap_or(Value::Null)
    }
    fn exhaustive(&self, _tier: Tier) -> bool {
        false
    }
}

pub fn verif_dir() -> PathBuf {
    PathBuf::from(std::env::var("VERIF_DIR").unwrap_or_else(|_| "/verif".to_string()))
}

pub fn base_seed() -> u64 {
    std::env::var("VERIF_SEED")
        .ok()
        .and_then(|s| s.trim().parse::<u64>().ok())
        .unwrap_or(20_260_922)
}

pub fn threads() -> usize {
    std::env::var("VERIF_THREADS")
        .ok()
        .and_then(|s| s.parse().ok())
        .unwrap_or_else(|| std::thread::available_parallelism().map(|n| n.get()).unwrap_or(8).min(16))
}

thread_local! {
    static SCRATCH: std::cell::RefCell<Option<PathBuf>> = const { std::cell::RefCell::new(None) };
    static SCRATCH_N: std::cell::Cell<u64> = const { std::cell::Cell::new(0) };
}

fn scratch_root() -> PathBuf {
    let shm = Path::new("/dev/shm");
    let base = if shm.is_dir() { shm.to_path_buf() } else { verif_dir().join("run") };
    base.join(format!("verif-{}", std::process::id()))
}

/// A fresh, empty scratch directory for the current run (removed by `ScratchGuard::drop`).
pub struct Scratch {
    pub path: PathBuf,
}

impl Scratch {
    pub fn new() -> Self {
        let n = SCRATCH_N.with(|c| {
            let v = c.get();
            c.set(v + 1);
            v
        });
        let tid = format!("{:?}", std::thread::current().id())
            .chars()
            .filter(char::is_ascii_digit)
            .collect::<String>();
        let path = scratch_root().join(format!("t{tid}")).join(format!("r{n}"));
        let _ = std::fs::remove_dir_all(&path);
        std::fs::create_dir_all(&path).expect("create scratch dir");
        Scratch { path }
    }
    pub fn dir(&self, name: &str) -> PathBuf {
        let p = self.path.join(name);
        std::fs::create_dir_all(&p).expect("create scratch subdir");
        p
    }
}

impl Default for Scratch {
    fn default() -> Self {
        Self::new()
    }
}

impl Drop for Scratch {
    fn drop(&mut self) {
        let _ = std::fs::remove_dir_all(&self.path);
    }
}

pub fn cleanup_scratch() {
    let _ = std::fs::remove_dir_all(scratch_root());
}

thread_local! {
    static RT: tokio::runtime::Runtime = tokio::runtime::Builder::new_current_thread()
        .enable_all()
        // two blocking threads (the editor's directory walker holds one while its consumer
        // needs another); `drain_blocking` is a rendezvous of two sentinels, see there
        .max_blocking_threads(2)
        .build()
        .expect("tokio runtime");
}

/// Run a future on this worker thread's current-thread runtime.
pub fn block_on<F: std::future::Future>(f: F) -> F::Output {
    RT.with(|rt| rt.block_on(f))
}

/// Wait until every blocking-pool operation queued so far has finished. tokio::fs::File writes
/// complete in the background unless flushed; code under test that drops a file without flushing
/// (Repository::cache does) returns before the bytes are on disk. With the single blocking thread
/// of this runtime a sentinel task is a barrier, so observations after it are deterministic.
pub fn drain_blocking() {
    // The blocking pool has two threads and a FIFO queue. Two sentinel tasks that wait for each
    // other can only both be running once every task queued before them has finished.
    block_on(async {
        let b = std::sync::Arc::new(std::sync::Barrier::new(2));
        let (b1, b2) = (b.clone(), b.clone());
        let h1 = tokio::task::spawn_blocking(move || {
            b1.wait();
        });
        let h2 = tokio::task::spawn_blocking(move || {
            b2.wait();
        });
        let _ = h1.await;
        let _ = h2.await;
    });
}

/// Run a future on a fresh paused-clock runtime (virtual time auto-advances).
pub fn block_on_paused<F: std::future::Future>(f: F) -> F::Output {
    let rt = tokio::runtime::Builder::new_current_thread()
        .enable_all()
        .start_paused(true)
        .build()
        .expect("tokio runtime");
    rt.block_on(f)
}

#[derive(Debug, Clone)]
pub struct KnownFinding {
    pub property: String,
    pub key: String,
    pub what: String,
}

pub fn load_known_findings() -> Vec<KnownFinding> {
    let p = verif_dir().join("known_findings.jsonl");
    let mut out = Vec::new();
    if let Ok(text) = std::fs::read_to_string(p) {
        for line in text.lines() {
            let line = line.trim();
            if line.is_empty() || line.starts_with('#') {
                continue;
            }
            if let Ok(v) = serde_json::from_str::<Value>(line) {
                if v["kind"].as_str() == Some("finding") {
                    out.push(KnownFinding {
                        property: v["property"].as_str().unwrap_or("").to_string(),
                        key: v["key"].as_str().unwrap_or("").to_string(),
                        what: v["what"].as_str().unwrap_or("").to_string(),
                    });
                }
            }
        }
    }
    out
}

struct Agg {
    evaluations: u64,
    pass: u64,
    inconclusive: BTreeMap<String, u64>,
    faults: BTreeMap<String, u64>,
    probes: BTreeMap<String, u64>,
    sim_time_s: u64,
    digests: HashSet<u64>,
    nontrivial: HashSet<u64>,
    batch: Vec<(u64, u64, u64)>,
    samples: BTreeMap<u64, Value>,
    violations: Vec<(u64, Value, String, String)>,
    harness: Vec<String>,
}

pub struct BatchResult {
    pub exit: i32,
}

fn verdict_code(v: &Verdict) -> u64 {
    match v {
        Verdict::Pass => 1,
        Verdict::Violation { key, .. } => 2 ^ hash_str(key),
        Verdict::Inconclusive(c) => 3 ^ hash_str(c),
        Verdict::Harness(_) => 4,
    }
}

pub fn scenario_for<C: Check>(c: &C, index: u64, seed: u64, tier: Tier) -> C::Scenario {
    let en = c.enumerated(tier);
    if index < en {
        c.enumerate(index, tier).expect("enumerated scenario")
    } else {
        c.generate(mix(mix(seed, hash_str(c.id())), index - en), tier)
    }
}

pub fn run_batch<C: Check>(c: &C, tier: Tier) -> BatchResult {
    let seed = base_seed();
    let start = Instant::now();
    let total = c.enumerated(tier) + c.runs(tier);
    let total = std::env::var("VERIF_RUNS").ok().and_then(|s| s.parse().ok()).unwrap_or(total);
    let wall_cap: f64 = std::env::var("VERIF_WALL_S").ok().and_then(|s| s.parse().ok()).unwrap_or(match tier {
        Tier::Quick => 240.0,
        Tier::Thorough => 3000.0,
    });
    println!("check={} tier={} VERIF_SEED={} runs={} threads={}", c.id(), tier.name(), seed, total, threads());
    let next = AtomicU64::new(0);
    let stop = AtomicBool::new(false);
    let agg = Mutex::new(Agg {
        evaluations: 0,
        pass: 0,
        inconclusive: BTreeMap::new(),
        faults: BTreeMap::new(),
        probes: BTreeMap::new(),
        sim_time_s: 0,
        digests: HashSet::new(),
        nontrivial: HashSet::new(),
        batch: Vec::new(),
        samples: BTreeMap::new(),
        violations: Vec::new(),
        harness: Vec::new(),
    });
    let truncated = AtomicBool::new(false);
    std::thread::scope(|scope| {
        for _ in 0..threads() {
            // big stack: deep delegation recursion must not crash the simulator
            std::thread::Builder::new()
                .stack_size(256 << 20)
                .spawn_scoped(scope, || loop {
                    if stop.load(Ordering::Relaxed) {
                        break;
                    }
                    let i = next.fetch_add(1, Ordering::SeqCst);
                    if i >= total {
                        break;
                    }
                    if start.elapsed().as_secs_f64() > wall_cap {
                        truncated.store(true, Ordering::SeqCst);
                        break;
                    }
                    let sc = scenario_for(c, i, seed, tier);
                    let out = c.run(&sc);
                    let d = hash_str(&out.trace);
                    let mut a = agg.lock().unwrap();
                    a.evaluations += 1;
                    a.sim_time_s += out.sim_time_s;
                    for (k, v) in &out.faults {
                        *a.faults.entry(k.clone()).or_insert(0) += v;
                    }
                    for (k, v) in &out.probes {
                        *a.probes.entry(k.clone()).or_insert(0) += v;
                    }
                    a.digests.insert(d);
                    if out.nontrivial {
                        a.nontrivial.insert(d);
                        if a.samples.len() < 4 || a.samples.keys().next_back().is_some_and(|k| *k > i) {
                            a.samples.insert(i, c.sample(&sc));
                            while a.samples.len() > 4 {
                                let last = *a.samples.keys().next_back().unwrap();
                                a.samples.remove(&last);
                            }
                        }
                    }
                    a.batch.push((i, d, verdict_code(&out.verdict)));
                    match out.verdict {
                        Verdict::Pass => a.pass += 1,
                        Verdict::Inconclusive(cl) => *a.inconclusive.entry(cl).or_insert(0) += 1,
                        Verdict::Violation { key, detail } => {
                            if a.violations.len() < 2000 {
                                a.violations.push((i, serde_json::to_value(&sc).unwrap(), key, detail));
                            }
                        }
                        Verdict::Harness(m) => {
                            a.harness.push(format!("run {i}: {m}"));
                            if a.harness.len() > 20 {
                                stop.store(true, Ordering::SeqCst);
                            }
                        }
                    }
                })
                .expect("spawn worker");
        }
    });
    let mut a = agg.into_inner().unwrap();
    let wall = start.elapsed().as_secs_f64();
    a.batch.sort_unstable();
    let mut bd: u64 = 0xABCD;
    for (i, d, v) in &a.batch {
        bd = mix(bd, mix(*i, mix(*d, *v)));
    }

    // --- violations: group by key, lowest index first
    a.violations.sort_by(|x, y| x.0.cmp(&y.0));
    let known = load_known_findings();
    let mut seen_keys: BTreeSet<String> = BTreeSet::new();
    let mut reported = 0u64;
    let mut known_matched: Vec<String> = Vec::new();
    let mut exit = 0;
    let mut viol_summaries = Vec::new();
    for (idx, scv, key, detail) in &a.violations {
        if !seen_keys.insert(key.clone()) {
            continue;
        }
        if let Some(k) = known.iter().find(|k| k.property == c.id() && &k.key == key) {
            println!("KNOWN-FINDING: property={} {} [key={}]", c.id(), k.what, key);
            known_matched.push(key.clone());
            continue;
        }
        let sc: C::Scenario = serde_json::from_value(scv.clone()).expect("scenario round-trips");
        let (min_sc, steps) = minimise(c, &sc, key);
        let out = c.run(&min_sc);
        let (okey, odetail) = match &out.verdict {
            Verdict::Violation { key, detail } => (key.clone(), detail.clone()),
            _ => {
                eprintln!("HARNESS: violation {key} at index {idx} did not reproduce after minimisation");
                exit = 2;
                (key.clone(), detail.clone())
            }
        };
        let path = write_replay(c, &min_sc, seed, *idx, &okey, &odetail, &out.trace, steps);
        // confirm in a fresh process
        let confirmed = confirm_replay(c.id(), &path, &okey);
        if !confirmed {
            eprintln!("HARNESS: replay {} did not reproduce in a fresh process", path.display());
            exit = 2;
            continue;
        }
        println!("VIOLATION property={} replay={}", c.id(), path.display());
        println!("  key={okey} index={idx} minimised_in={steps} detail={odetail}");
        viol_summaries.push(json!({"key": okey, "index": idx, "replay": path.display().to_string(), "detail": odetail}));
        reported += 1;
        if exit == 0 {
            exit = 1;
        }
        if reported >= 8 {
            break;
        }
    }

    // --- harness-level conditions
    let mut harness_msgs = a.harness.clone();
    let complete = !truncated.load(Ordering::SeqCst) && a.evaluations >= total;
    if complete || a.evaluations > 2000 {
        for f in c.required_faults(tier) {
            if a.faults.get(f).copied().unwrap_or(0) == 0 {
                harness_msgs.push(format!("fault kind '{f}' never fired in this batch"));
            }
        }
        for p in c.required_probes(tier) {
            if a.probes.get(p).copied().unwrap_or(0) == 0 {
                harness_msgs.push(format!("probe '{p}' never moved in this batch"));
            }
        }
    }
    if !harness_msgs.is_empty() && exit == 0 {
        exit = 2;
    }
    for m in &harness_msgs {
        eprintln!("HARNESS: {m}");
    }

    // --- evidence
    let samples: Vec<Value> = a.samples.iter().map(|(i, v)| json!({"index": i, "scenario": v})).collect();
    let samples = if samples.is_empty() {
        vec![json!({"index": 0, "scenario": c.sample(&scenario_for(c, 0, seed, tier))})]
    } else {
        samples
    };
    let evidence = json!({
        "property_id": c.id(),
        "tier": tier.name(),
        "seed": seed,
        "level": c.level(),
        "coverage": {
            "evaluations": a.evaluations,
            "distinct_nontrivial": a.nontrivial.len(),
            "rule": c.rule(),
            "samples": samples,
            "exhaustive": c.exhaustive(tier) && complete,
            "enumerated_prefix": c.enumerated(tier),
            "seeded_runs": a.evaluations.saturating_sub(c.enumerated(tier)),
            "runs_per_hour": if wall > 0.0 { (a.evaluations as f64 / wall * 3600.0) as u64 } else { 0 },
            "sim_time_covered_s": a.sim_time_s,
            "faults_fired": a.faults,
            "probes": a.probes,
            "distinct_traces": a.digests.len(),
            "pass": a.pass,
            "inconclusive": a.inconclusive,
            "components": c.components(),
            "known_findings_matched": known_matched,
            "violation_reports": viol_summaries,
            "batch_digest": format!("{bd:016x}"),
            "truncated_by_wall_clock": truncated.load(Ordering::SeqCst),
            "threads": threads(),
            "harness_messages": harness_msgs,
        },
        "assumptions": c.assumptions(),
        "wall_s": (wall * 1000.0).round() / 1000.0,
        "violations": reported,
    });
    let evdir = verif_dir().join("evidence");
    let _ = std::fs::create_dir_all(&evdir);
    let evpath = evdir.join(format!("{}.json", c.id()));
    std::fs::write(&evpath, serde_json::to_string_pretty(&evidence).unwrap()).expect("write evidence");
    println!(
        "done: evaluations={} pass={} inconclusive={} violations={} distinct_traces={} nontrivial={} wall={:.1}s batch_digest={:016x}",
        a.evaluations,
        a.pass,
        a.inconclusive.values().sum::<u64>(),
        reported,
        a.digests.len(),
        a.nontrivial.len(),
        wall,
        bd
    );
    cleanup_scratch();
    BatchResult { exit }
}

fn same_violation(v: &Verdict, key: &str) -> bool {
    matches!(v, Verdict::Violation { key: k, .. } if k == key)
}

pub fn minimise<C: Check>(c: &C, sc: &C::Scenario, key: &str) -> (C::Scenario, u32) {
    let mut cur = sc.clone();
    let mut budget = 300u32;
    let mut steps = 0u32;
    'outer: loop {
        for cand in c.shrink(&cur) {
            if budget == 0 {
                break 'outer;
            }
            budget -= 1;
            let out = c.run(&cand);
            if same_violation(&out.verdict, key) {
                cur = cand;
                steps += 1;
                continue 'outer;
            }
        }
        break;
    }
    (cur, steps)
}

fn write_replay<C: Check>(
    c: &C,
    sc: &C::Scenario,
    seed: u64,
    index: u64,
    key: &str,
    detail: &str,
    trace: &str,
    steps: u32,
) -> PathBuf {
    let dir = verif_dir().join("replays");
    let _ = std::fs::create_dir_all(&dir);
    let path = dir.join(format!("{}-{}-{}.json", c.id(), seed, index));
    let v = json!({
        "property": c.id(),
        "seed": seed,
        "index": index,
        "expected_key": key,
        "detail": detail,
        "minimisation_steps": steps,
        "trace_digest": format!("{:016x}", hash_str(trace)),
        "trace": trace.lines().take(200).collect::<Vec<_>>(),
        "scenario": serde_json::to_value(sc).unwrap(),
    });
    std::fs::write(&path, serde_json::to_string_pretty(&v).unwrap()).expect("write replay");
    path
}

fn confirm_replay(id: &str, path: &Path, key: &str) -> bool {
    let exe = match std::env::current_exe() {
        Ok(e) => e,
        Err(_) => return false,
    };
    let out = std::process::Command::new(exe)
        .arg("replay")
        .arg(id)
        .arg(path)
        .env("VERIF_REPLAY_QUIET", "1")
        .output();
    match out {
        Ok(o) => {
            let text = String::from_utf8_lossy(&o.stdout);
            o.status.code() == Some(1) && text.contains(&format!("key={key}"))
        }
        Err(_) => false,
    }
}

/// Re-execute a replay file: exit 1 and a VIOLATION line if it reproduces.
pub fn replay<C: Check>(c: &C, path: &Path) -> i32 {
    let text = match std::fs::read_to_string(path) {
        Ok(t) => t,
        Err(e) => {
            eprintln!("HARNESS: cannot read replay {}: {e}", path.display());
            return 2;
        }
    };
    let v: Value = match serde_json::from_str(&text) {
        Ok(v) => v,
        Err(e) => {
            eprintln!("HARNESS: replay does not parse: {e}");
            return 2;
        }
    };
    let sc: C::Scenario = match serde_json::from_value(v["scenario"].clone()) {
        Ok(s) => s,
        Err(e) => {
            eprintln!("HARNESS: replay scenario does not deserialize: {e}");
            return 2;
        }
    };
    let out = c.run(&sc);
    cleanup_scratch();
    match out.verdict {
        Verdict::Violation { key, detail } => {
            println!("VIOLATION property={} replay={}", c.id(), path.display());
            println!("  key={key} detail={detail}");
            println!("  trace_digest={:016x}", hash_str(&out.trace));
            1
        }
        Verdict::Harness(m) => {
            eprintln!("HARNESS: {m}");
            2
        }
        other => {
            println!("replay did not violate: {other:?}");
            0
        }
    }
}

/// Determinism self-test: run the first `n` scenarios twice in this process and compare traces
/// and verdicts (cross-process / cross-thread-count comparison uses `batch_digest`).
pub fn selftest<C: Check>(c: &C, n: u64, tier: Tier) -> i32 {
    let seed = base_seed();
    let mut bad = 0;
    for i in 0..n {
        let sc = scenario_for(c, i, seed, tier);
        let sc2 = scenario_for(c, i, seed, tier);
        let a = c.run(&sc);
        let b = c.run(&sc2);
        if a.trace != b.trace || verdict_code(&a.verdict) != verdict_code(&b.verdict) {
            eprintln!("DIVERGENCE {} index {i}:\n--- a\n{}\n--- b\n{}", c.id(), a.trace, b.trace);
            bad += 1;
            if bad > 3 {
                break;
            }
        }
    }
    cleanup_scratch();
    if bad > 0 {
        2
    } else {
        println!("selftest {}: {n} scenarios twice, no divergence", c.id());
        0
    }
}

/// Run one scenario of the batch by index and print everything about it (debugging aid).
pub fn one<C: Check>(c: &C, index: u64, tier: Tier) -> i32 {
    let sc = scenario_for(c, index, base_seed(), tier);
    println!("scenario: {}", serde_json::to_string(&sc).unwrap());
    let out = c.run(&sc);
    println!("trace:\n{}", out.trace);
    println!("verdict: {:?}", out.verdict);
    println!("faults: {:?} probes: {:?} nontrivial: {}", out.faults, out.probes, out.nontrivial);
    cleanup_scratch();
    0
}
