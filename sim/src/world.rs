//! Conventional simulated repositories assembled with the foreign publisher, and the client-side
//! helpers (load with a SimTransport, datastore handling, clock).

use crate::json::{self, Style, J};
use crate::keys::{self, Alg, K};
use crate::publisher::*;
use crate::transport::SimTransport;
use std::collections::HashMap;
use std::path::Path;
use tough::{ExpirationEnforcement, Limits, Repository, RepositoryLoader};

/// A delegated role and, recursively, the roles it delegates to.
#[derive(Clone, Debug)]
pub struct RoleNode {
    pub name: String,
    pub keys: RoleKeys,
    /// keys that actually sign the role's document (normally = keys.keys[..threshold])
    pub signers: Vec<K>,
    pub paths: Paths,
    pub terminating: bool,
    pub version: u64,
    pub expires: i64,
    pub targets: Vec<TargetEntry>,
    pub children: Vec<RoleNode>,
    /// unknown members to add at the top level of the signed portion
    pub extra: Vec<(String, J)>,
}

impl RoleNode {
    pub fn simple(world: u64, keyno: u64, name: &str, globs: &[&str]) -> RoleNode {
        let k = keys::ed(world, keyno);
        RoleNode {
            name: name.to_string(),
            keys: RoleKeys::one(&k),
            signers: vec![k],
            paths: Paths::Globs(globs.iter().map(|s| (*s).to_string()).collect()),
            terminating: false,
            version: 1,
            expires: FAR,
            targets: vec![],
            children: vec![],
            extra: vec![],
        }
    }
    pub fn spec(&self) -> DelegSpec {
        DelegSpec {
            name: self.name.clone(),
            keys: self.keys.clone(),
            paths: self.paths.clone(),
            terminating: self.terminating,
        }
    }
    pub fn signed(&self) -> J {
        let specs: Vec<DelegSpec> = self.children.iter().map(RoleNode::spec).collect();
        let mut j = targets_signed(
            self.version,
            self.expires,
            &self.targets,
            if self.children.is_empty() { None } else { Some(&specs) },
        );
        for (k, v) in &self.extra {
            j.set(k, v.clone());
        }
        j
    }
    pub fn doc(&self) -> Doc {
        Doc::signed_by(self.signed(), &self.signers)
    }
    pub fn walk<'a>(&'a self, out: &mut Vec<&'a RoleNode>) {
        out.push(self);
        for c in &self.children {
            c.walk(out);
        }
    }
}

#[derive(Clone, Debug)]
pub struct RepoSpec {
    pub world: u64,
    pub root: RootSpec,
    pub root_signers: Vec<K>,
    pub ts_version: u64,
    pub ts_expires: i64,
    pub snap_version: u64,
    pub snap_expires: i64,
    pub targets_version: u64,
    pub targets_expires: i64,
    pub targets: Vec<TargetEntry>,
    pub delegated: Vec<RoleNode>,
    /// does timestamp pin snapshot's length / hash; does snapshot pin lengths / hashes
    pub ts_pins: (bool, bool),
    pub snap_pins: (bool, bool),
    /// target file contents by name
    pub contents: Vec<(String, Vec<u8>)>,
}

/// Standard key numbering inside a world.
pub const KEY_ROOT: u64 = 1;
pub const KEY_TS: u64 = 2;
pub const KEY_SNAP: u64 = 3;
pub const KEY_TARGETS: u64 = 4;

impl RepoSpec {
    /// One Ed25519 key per role, threshold 1, everything at version 1, nothing expiring.
    pub fn basic(world: u64, consistent: bool) -> RepoSpec {
        let kr = keys::ed(world, KEY_ROOT);
        let root = RootSpec {
            version: 1,
            expires: FAR,
            consistent_snapshot: consistent,
            root: RoleKeys::one(&kr),
            timestamp: RoleKeys::one(&keys::ed(world, KEY_TS)),
            snapshot: RoleKeys::one(&keys::ed(world, KEY_SNAP)),
            targets: RoleKeys::one(&keys::ed(world, KEY_TARGETS)),
        };
        RepoSpec {
            world,
            root,
            root_signers: vec![kr],
            ts_version: 1,
            ts_expires: FAR,
            snap_version: 1,
            snap_expires: FAR,
            targets_version: 1,
            targets_expires: FAR,
            targets: vec![],
            delegated: vec![],
            ts_pins: (true, true),
            snap_pins: (true, true),
            contents: vec![],
        }
    }

    pub fn add_target(&mut self, name: &str, content: &[u8]) {
        self.targets.push(TargetEntry::of(name, content));
        self.contents.push((name.to_string(), content.to_vec()));
    }

    pub fn all_roles(&self) -> Vec<&RoleNode> {
        let mut v = Vec::new();
        for r in &self.delegated {
            r.walk(&mut v);
        }
        v
    }

    pub fn targets_signed(&self) -> J {
        let specs: Vec<DelegSpec> = self.delegated.iter().map(RoleNode::spec).collect();
        targets_signed(
            self.targets_version,
            self.targets_expires,
            &self.targets,
            if self.delegated.is_empty() { None } else { Some(&specs) },
        )
    }
}

/// The documents and served files of one repository state.
#[derive(Clone, Debug)]
pub struct Built {
    pub root: Doc,
    pub timestamp: Doc,
    pub snapshot: Doc,
    pub targets: Doc,
    pub delegated: Vec<(String, Doc)>,
    pub files: Files,
    pub consistent: bool,
}

pub fn sign_threshold(signed: J, rk: &RoleKeys) -> Doc {
    let n = (rk.threshold as usize).min(rk.keys.len());
    Doc::signed_by(signed, &rk.keys[..n])
}

pub fn target_file_name(consistent: bool, name: &str, content: &[u8]) -> String {
    if consistent {
        format!("{}.{}", json::sha256_hex(content), name)
    } else {
        name.to_string()
    }
}

pub fn build(spec: &RepoSpec) -> Built {
    build_styled(spec, Style::Compact)
}

pub fn build_styled(spec: &RepoSpec, style: Style) -> Built {
    let consistent = spec.root.consistent_snapshot;
    let root = Doc::signed_by(spec.root.signed(), &spec.root_signers);
    let targets = sign_threshold(spec.targets_signed(), &spec.root.targets);
    let targets_bytes = targets.bytes_styled(style);
    let mut files = Files::new();
    let mut metas: Vec<(String, Meta)> = vec![(
        "targets.json".to_string(),
        Meta::of(spec.targets_version, &targets_bytes, spec.snap_pins.0, spec.snap_pins.1),
    )];
    let mut delegated = Vec::new();
    for r in spec.all_roles() {
        let d = r.doc();
        let b = d.bytes_styled(style);
        metas.push((format!("{}.json", r.name), Meta::of(r.version, &b, spec.snap_pins.0, spec.snap_pins.1)));
        let q = quote_role_name(&r.name);
        let fname = if consistent { format!("{}.{}.json", r.version, q) } else { format!("{q}.json") };
        files.meta.insert(fname, b);
        delegated.push((r.name.clone(), d));
    }
    let snapshot = sign_threshold(snapshot_signed(spec.snap_version, spec.snap_expires, &metas), &spec.root.snapshot);
    let snapshot_bytes = snapshot.bytes_styled(style);
    let timestamp = sign_threshold(
        timestamp_signed(
            spec.ts_version,
            spec.ts_expires,
            &Meta::of(spec.snap_version, &snapshot_bytes, spec.ts_pins.0, spec.ts_pins.1),
        ),
        &spec.root.timestamp,
    );
    files.meta.insert(format!("{}.root.json", spec.root.version), root.bytes_styled(style));
    files.meta.insert("timestamp.json".to_string(), timestamp.bytes_styled(style));
    if consistent {
        files.meta.insert(format!("{}.snapshot.json", spec.snap_version), snapshot_bytes);
        files.meta.insert(format!("{}.targets.json", spec.targets_version), targets_bytes);
    } else {
        files.meta.insert("snapshot.json".to_string(), snapshot_bytes);
        files.meta.insert("targets.json".to_string(), targets_bytes);
    }
    for (name, content) in &spec.contents {
        files.targets.insert(target_file_name(consistent, name, content), content.clone());
    }
    Built { root, timestamp, snapshot, targets, delegated, files, consistent }
}

pub fn set_clock(secs: Option<i64>) {
    tough::verif_hooks::set_now(secs.map(dt));
}

#[derive(Clone, Copy, Debug)]
pub struct LoadOpts {
    pub limits: Option<Limits>,
    pub enforcement: ExpirationEnforcement,
}

impl Default for LoadOpts {
    fn default() -> Self {
        LoadOpts { limits: None, enforcement: ExpirationEnforcement::Safe }
    }
}

/// One update cycle with tough's real client.
pub async fn load(
    root_bytes: &[u8],
    transport: SimTransport,
    datastore: Option<&Path>,
    opts: LoadOpts,
) -> Result<Repository, tough::error::Error> {
    let root_owned = root_bytes.to_vec();
    let mut l = RepositoryLoader::new(&root_owned, SimTransport::meta_url(), SimTransport::targets_url())
        .transport(transport)
        .expiration_enforcement(opts.enforcement);
    if let Some(lim) = opts.limits {
        l = l.limits(lim);
    }
    if let Some(d) = datastore {
        l = l.datastore(d);
    }
    l.load().await
}

/// Serve exactly the files of `files` (whole, single chunk).
pub fn plain_transport(files: &Files) -> SimTransport {
    SimTransport::from_files(files.meta.clone(), files.targets.clone())
}

pub fn alg_of(n: u64) -> Alg {
    match n % 3 {
        0 => Alg::Ed25519,
        1 => Alg::Ecdsa,
        _ => Alg::Rsa,
    }
}

/// Names of the regular files directly inside `dir`, sorted.
pub fn list_dir(dir: &Path) -> Vec<String> {
    let mut v: Vec<String> = std::fs::read_dir(dir)
        .map(|rd| rd.filter_map(Result::ok).map(|e| e.file_name().to_string_lossy().to_string()).collect())
        .unwrap_or_default();
    v.sort();
    v
}

pub type FileMap = HashMap<String, Vec<u8>>;
