//! C16 — role names never steer file access outside the metadata directories, nor collide.
//! Observation is I/O: the URLs the client requests and the directory trees it and the editor write.

use crate::classify::variant;
use crate::engine::{block_on, drain_blocking, Check, Outcome, Scratch, Tier};
use crate::keys;
use crate::prng::{mix, Rng};
use crate::publisher::*;
use crate::transport::{Base, Resp, SimTransport, META_BASE};
use crate::world::{self, RepoSpec, RoleNode};
use serde::{Deserialize, Serialize};
use serde_json::{json, Value};
use std::collections::{BTreeMap, BTreeSet};
use std::num::NonZeroU64;
use std::path::Path;
use std::sync::{Arc, Mutex};
use tough::editor::RepositoryEditor;
use tough::schema::{PathPattern, PathSet};

const ALPHABET: [char; 12] = ['/', '\\', '.', '%', '?', '#', ':', ' ', '\u{1}', 'é', 'a', '1'];
const DICTIONARY: [&str; 22] = [
    ".", "..", "x.json", "%2e%2e", "a%2Fb", "a/b", "targets", "snapshot", "timestamp", "root", "1.root", "latest_known_time",
    "../x", "a/../b", "..%2Fx", "%2F", "a b", "a%20b", "1.a", "a.json", "A", "a",
];

#[derive(Clone, Debug, Serialize, Deserialize)]
pub struct Sc {
    pub world: u64,
    pub consistent: bool,
    pub names: Vec<String>,
}

pub struct C16;

fn n_enum() -> u64 {
    (1..=4).map(|l| 12u64.pow(l)).sum()
}

fn name_of(mut i: u64) -> String {
    let mut len = 1u32;
    loop {
        let b = 12u64.pow(len);
        if i < b {
            break;
        }
        i -= b;
        len += 1;
    }
    let mut s = String::new();
    for _ in 0..len {
        s.push(ALPHABET[(i % 12) as usize]);
        i /= 12;
    }
    s
}

/// Another role name: `name` with some (or all) of its non-alphanumeric characters written as
/// percent escapes, upper or lower case. A mapping that leaves '%' (or the escaped character) alone
/// sends both names to one file.
fn spell_escaped(name: &str, r: &mut Rng) -> String {
    let all = r.chance(1, 2);
    let lower = r.chance(1, 4);
    let mut out = String::new();
    for c in name.chars() {
        if !c.is_ascii_alphanumeric() && (all || r.chance(1, 2)) {
            let mut buf = [0u8; 4];
            for b in c.encode_utf8(&mut buf).bytes() {
                out.push_str(&if lower { format!("%{b:02x}") } else { format!("%{b:02X}") });
            }
        } else {
            out.push(c);
        }
    }
    out
}

/// Lexical normalisation of an absolute path ("." and ".." resolved without touching the disk).
fn lexical(p: &Path) -> Option<std::path::PathBuf> {
    let mut out = std::path::PathBuf::new();
    for c in p.components() {
        match c {
            std::path::Component::RootDir => out.push("/"),
            std::path::Component::CurDir => {}
            std::path::Component::ParentDir => {
                if !out.pop() {
                    return None;
                }
            }
            std::path::Component::Normal(x) => out.push(x),
            std::path::Component::Prefix(_) => return None,
        }
    }
    Some(out)
}

fn reserved(name: &str) -> bool {
    let stem = name;
    let versioned = |base: &str| stem.strip_suffix(base).is_some_and(|p| p.strip_suffix('.').is_some_and(|d| !d.is_empty() && d.bytes().all(|c| c.is_ascii_digit())));
    ["targets", "snapshot", "timestamp", "root", "latest_known_time"].contains(&stem) || versioned("root") || versioned("targets") || versioned("snapshot")
}

/// (kind, len) of every entry below `dir`, keyed by path relative to `dir`.
fn tree(dir: &Path) -> BTreeMap<String, (char, u64)> {
    fn walk(base: &Path, d: &Path, out: &mut BTreeMap<String, (char, u64)>) {
        let Ok(rd) = std::fs::read_dir(d) else { return };
        for e in rd.flatten() {
            let p = e.path();
            let rel = p.strip_prefix(base).unwrap().to_string_lossy().to_string();
            match std::fs::symlink_metadata(&p) {
                Ok(m) if m.is_dir() => {
                    out.insert(rel, ('d', 0));
                    walk(base, &p, out);
                }
                Ok(m) if m.is_file() => {
                    out.insert(rel, ('f', m.len()));
                }
                _ => {
                    out.insert(rel, ('o', 0));
                }
            }
        }
    }
    let mut out = BTreeMap::new();
    walk(dir, dir, &mut out);
    out
}

/// Check that `dir` (inside sandbox `sbox`) holds only plain files directly inside and that nothing
/// else in the sandbox changed. Returns the file names in `dir`.
fn check_dir(o: &mut Outcome, what: &str, sbox: &Path, dir: &Path, before: &BTreeMap<String, (char, u64)>) -> Vec<String> {
    let after = tree(sbox);
    let rel = dir.strip_prefix(sbox).unwrap().to_string_lossy().to_string();
    let inside = |k: &str| k == rel || k.starts_with(&format!("{rel}/"));
    let outside_before: BTreeMap<_, _> = before.iter().filter(|(k, _)| !inside(k)).map(|(k, v)| (k, v.0)).collect();
    let outside_after: BTreeMap<_, _> = after.iter().filter(|(k, _)| !inside(k)).map(|(k, v)| (k, v.0)).collect();
    if outside_before != outside_after {
        let added: Vec<&String> = outside_after.keys().filter(|k| !outside_before.contains_key(*k)).copied().collect();
        o.violate(format!("{what}-wrote-outside-its-directory"), format!("entries appeared or changed outside {rel}: {added:?}"));
    }
    let mut names = Vec::new();
    for (k, (kind, _)) in &after {
        if let Some(r) = k.strip_prefix(&format!("{rel}/")) {
            if r.contains('/') || *kind != 'f' {
                o.violate(format!("{what}-entry-not-plain"), format!("{what} directory contains {k:?} of kind {kind}"));
            } else {
                names.push(r.to_string());
            }
        }
    }
    names
}

impl Check for C16 {
    type Scenario = Sc;
    fn id(&self) -> &'static str {
        "C16"
    }
    fn rule(&self) -> String {
        "delegated role names over {/ \\ . % ? # : space \\x01 é a 1}: enumerated to length 4 (thorough: all 22620; quick: every 2nd), a dictionary of 22 hostile names, and seeded names to length 64; 1..3 such roles per repository, a quarter of them with a twin that spells one of the names with percent escapes, some with a twin that prepends dots (listed first), both consistent-snapshot settings; each run loads (with datastore), caches metadata, loads the same repository again as a local file repository through tough's FilesystemTransport (once complete, once with one role's plain entry removed and copies placed where decoded spellings of its name point), and builds + writes the same roles with the real editor; non-trivial = a name contains a path- or URL-significant character and its file was requested/written; distinct = distinct canonical trace".into()
    }
    fn assumptions(&self) -> Vec<String> {
        vec![
            "a delegated role whose name equals a top-level file stem (targets, snapshot, timestamp, root, N.root, latest_known_time) is checked for containment only, not for collisions (the statement compares different role names)".into(),
            "the transport answers a request for an unknown file name with the next not yet served role document, so that a changed name mapping is observed rather than hidden behind a failed load".into(),
        ]
    }
    fn components(&self) -> Value {
        json!({"real": ["tough load (encode_filename, URL join, datastore writes)", "Repository::cache_metadata", "FilesystemTransport (file URL to path)", "RepositoryEditor::delegate_role / sign", "SignedRepository::write", "real directories in a scratch sandbox"], "stub": ["transport (SimTransport)", "foreign publisher (client side)"]})
    }
    fn enumerated(&self, tier: Tier) -> u64 {
        DICTIONARY.len() as u64
            + match tier {
                Tier::Quick => n_enum() / 2,
                Tier::Thorough => n_enum(),
            }
    }
    fn exhaustive(&self, tier: Tier) -> bool {
        tier == Tier::Thorough
    }
    fn enumerate(&self, index: u64, tier: Tier) -> Option<Sc> {
        let mut r = Rng::new(mix(0xC16, index));
        let d = DICTIONARY.len() as u64;
        let mut names = Vec::new();
        if index < d {
            names.push(DICTIONARY[index as usize].to_string());
            names.push((*r.pick(&DICTIONARY)).to_string());
        } else {
            let i = index - d;
            let ni = match tier {
                Tier::Quick => (i * 2 + i % 2).min(n_enum() - 1),
                Tier::Thorough => i,
            };
            names.push(name_of(ni));
            match r.below(4) {
                0 | 1 => names.push(name_of(r.below(n_enum()))),
                // the same name spelt with percent escapes: must still be another file
                2 => names.push(spell_escaped(&names[0], &mut r)),
                // the same name with leading dots, listed first: `1..x.json` is not a version of `x`
                _ => {
                    if r.chance(1, 2) {
                        let dotted = format!("{}{}", if r.chance(1, 2) { "." } else { ".." }, names[0]);
                        names.insert(0, dotted);
                    }
                }
            }
        }
        names.dedup();
        if names.len() == 2 && names[0] == names[1] {
            names.pop();
        }
        Some(Sc { world: index % 9973, consistent: r.chance(1, 2), names })
    }
    fn runs(&self, tier: Tier) -> u64 {
        match tier {
            Tier::Quick => 3_000,
            Tier::Thorough => 200_000,
        }
    }
    fn generate(&self, seed: u64, _tier: Tier) -> Sc {
        let mut r = Rng::new(seed);
        let n = 1 + r.usize_below(3);
        let mut names: Vec<String> = Vec::new();
        for _ in 0..n {
            let nm = if r.chance(1, 4) {
                (*r.pick(&DICTIONARY)).to_string()
            } else {
                let len = 1 + r.usize_below(64);
                (0..len).map(|_| if r.chance(1, 2) { *r.pick(&['a', '1']) } else { *r.pick(&ALPHABET) }).collect()
            };
            if !names.contains(&nm) {
                names.push(nm);
            }
        }
        if names.len() < 3 && r.chance(1, 4) {
            let twin = spell_escaped(&names[0], &mut r);
            if !names.contains(&twin) {
                names.push(twin);
            }
        }
        if names.len() < 3 && r.chance(1, 6) {
            let dotted = format!("{}{}", if r.chance(1, 2) { "." } else { ".." }, names[names.len() - 1]);
            if !names.contains(&dotted) {
                names.insert(0, dotted);
            }
        }
        Sc { world: r.below(9973), consistent: r.chance(1, 2), names }
    }
    fn shrink(&self, sc: &Sc) -> Vec<Sc> {
        let mut v = Vec::new();
        for i in 0..sc.names.len() {
            if sc.names.len() > 1 {
                let mut n = sc.names.clone();
                n.remove(i);
                v.push(Sc { names: n, ..sc.clone() });
            }
        }
        if sc.consistent {
            v.push(Sc { consistent: false, ..sc.clone() });
        }
        for i in 0..sc.names.len() {
            let chars: Vec<char> = sc.names[i].chars().collect();
            for j in 0..chars.len() {
                if chars.len() > 1 {
                    let mut c = chars.clone();
                    c.remove(j);
                    let s: String = c.into_iter().collect();
                    if !sc.names.contains(&s) {
                        let mut n = sc.names.clone();
                        n[i] = s;
                        v.push(Sc { names: n, ..sc.clone() });
                    }
                }
            }
        }
        v
    }
    fn required_faults(&self, _t: Tier) -> Vec<&'static str> {
        vec!["name_with_slash", "name_with_backslash", "name_dot_or_dotdot", "name_with_percent", "name_with_query_or_fragment", "name_with_control_or_non_ascii", "name_ending_in_json"]
    }
    fn required_probes(&self, _t: Tier) -> Vec<&'static str> {
        vec!["client_loaded", "metadata_cached", "editor_wrote", "distinct_names_distinct_files", "file_repository_loaded", "decoy_outside_plain_entry_ignored"]
    }
    fn run(&self, sc: &Sc) -> Outcome {
        let mut o = Outcome::new();
        let w = sc.world;
        if sc.names.is_empty() || sc.names.iter().collect::<BTreeSet<_>>().len() != sc.names.len() {
            o.harness("degenerate scenario");
            return o;
        }
        o.ev(format!("cfg consistent={} names={:?}", sc.consistent, sc.names));
        for n in &sc.names {
            if n.contains('/') {
                o.fault("name_with_slash");
            }
            if n.contains('\\') {
                o.fault("name_with_backslash");
            }
            if n == "." || n == ".." || n.starts_with("../") || n.contains("/../") {
                o.fault("name_dot_or_dotdot");
            }
            if n.contains('%') {
                o.fault("name_with_percent");
            }
            if n.contains('?') || n.contains('#') {
                o.fault("name_with_query_or_fragment");
            }
            if n.chars().any(|c| (c as u32) < 0x20 || (c as u32) > 0x7e) {
                o.fault("name_with_control_or_non_ascii");
            }
            if n.ends_with(".json") {
                o.fault("name_ending_in_json");
            }
        }
        let any_reserved = sc.names.iter().any(|n| reserved(n));
        let scratch = Scratch::new();
        let sbox = scratch.dir("S");
        std::fs::write(sbox.join("canary"), b"canary").unwrap();

        // =========== client side (foreign publisher) ===========
        if !sc.names.iter().any(|n| n == "targets") {
            let mut spec = RepoSpec::basic(w, sc.consistent);
            for (i, n) in sc.names.iter().enumerate() {
                let mut role = RoleNode::simple(w, 20 + i as u64, n, &[&format!("r{i}/*")]);
                role.targets.push(TargetEntry::of(&format!("r{i}/t"), format!("t{i}").as_bytes()));
                spec.delegated.push(role);
            }
            let built = world::build(&spec);
            let role_docs: Vec<Vec<u8>> = built.delegated.iter().map(|(_, d)| d.bytes()).collect();
            let meta = built.files.meta.clone();
            let assigned: Arc<Mutex<BTreeMap<String, usize>>> = Arc::new(Mutex::new(BTreeMap::new()));
            let a2 = assigned.clone();
            let docs2 = role_docs.clone();
            let transport = SimTransport::new(move |r| {
                if r.base != Base::Metadata {
                    return Resp::not_found();
                }
                if let Some(b) = meta.get(&r.rel) {
                    // the publisher's own mapping; remember which role this file belongs to
                    if let Some(i) = docs2.iter().position(|d| d == b) {
                        a2.lock().unwrap().entry(r.rel.clone()).or_insert(i);
                    }
                    return Resp::whole(b);
                }
                if r.rel.ends_with("root.json") {
                    return Resp::not_found();
                }
                // unknown name: hand out the next role document that was not served yet
                let mut a = a2.lock().unwrap();
                if let Some(i) = a.get(&r.rel) {
                    return Resp::whole(&docs2[*i]);
                }
                let used: BTreeSet<usize> = a.values().copied().collect();
                match (0..docs2.len()).find(|i| !used.contains(i)) {
                    Some(i) => {
                        a.insert(r.rel.clone(), i);
                        Resp::whole(&docs2[i])
                    }
                    None => Resp::not_found(),
                }
            });
            let ds = sbox.join("datastore");
            std::fs::create_dir_all(&ds).unwrap();
            let before = tree(&sbox);
            let shipped = built.root.bytes();
            let t2 = transport.clone();
            let ds2 = ds.clone();
            let loaded = block_on(async move { world::load(&shipped, t2, Some(&ds2), world::LoadOpts::default()).await });
            let log = transport.log();
            o.ev(format!("client load={:?} requests={:?}", loaded.as_ref().map(|_| "ok").map_err(variant), log.iter().map(|l| l.url.clone()).collect::<Vec<_>>()));
            // (1) every URL is <metadata base>/<single plain segment>
            let mut role_rels: Vec<String> = Vec::new();
            for l in &log {
                match l.url.strip_prefix(META_BASE) {
                    None => o.violate("request-outside-metadata-base", format!("requested {}", l.url)),
                    Some(rest) => {
                        if rest.is_empty() || rest == "." || rest == ".." || rest.contains('/') || rest.contains('?') || rest.contains('#') || rest.contains('\\') {
                            o.violate("request-not-a-single-path-segment", format!("requested {}", l.url));
                        }
                        let top = rest == "timestamp.json" || rest.ends_with("root.json") || rest.ends_with("snapshot.json") || rest.ends_with("targets.json");
                        if !top {
                            role_rels.push(rest.to_string());
                        }
                    }
                }
            }
            // (2) different role names never share a file
            if !any_reserved {
                let distinct: BTreeSet<&String> = role_rels.iter().collect();
                if distinct.len() != role_rels.len() {
                    o.violate("two-role-names-one-file", format!("role files requested: {role_rels:?} for roles {:?}", sc.names));
                } else if loaded.is_ok() && role_rels.len() == sc.names.len() {
                    o.probe("distinct_names_distinct_files");
                }
            }
            // (3) datastore
            drain_blocking();
            let ds_names = check_dir(&mut o, "datastore", &sbox, &ds, &before);
            o.ev(format!("datastore={ds_names:?}"));
            match &loaded {
                Ok(repo) => {
                    o.probe("client_loaded");
                    if !any_reserved {
                        let role_files = ds_names.iter().filter(|n| !["timestamp.json", "snapshot.json", "targets.json", "root.json", "latest_known_time.json"].contains(&n.as_str())).count();
                        if role_files != sc.names.len() {
                            o.violate("datastore-role-files-collide", format!("{} roles but datastore holds {ds_names:?}", sc.names.len()));
                        }
                    }
                    // (4) cache metadata
                    let cdir = sbox.join("cache-metadata");
                    std::fs::create_dir_all(&cdir).unwrap();
                    let before = tree(&sbox);
                    let cres = block_on(async { repo.cache_metadata(&cdir, true).await });
                    drain_blocking();
                    let cnames = check_dir(&mut o, "cache", &sbox, &cdir, &before);
                    o.ev(format!("cache={:?} files={cnames:?}", cres.as_ref().map_err(variant)));
                    // URLs requested while caching obey the same rule as those of the update cycle
                    let log2: Vec<_> = transport.log().into_iter().skip(log.len()).collect();
                    let mut cache_role_rels: Vec<String> = Vec::new();
                    for l in &log2 {
                        match l.url.strip_prefix(META_BASE) {
                            None => o.violate("request-outside-metadata-base", format!("cache requested {}", l.url)),
                            Some(rest) => {
                                if rest.is_empty() || rest == "." || rest == ".." || rest.contains('/') || rest.contains('?') || rest.contains('#') || rest.contains('\\') {
                                    o.violate("request-not-a-single-path-segment", format!("cache requested {}", l.url));
                                }
                                let top = rest == "timestamp.json" || rest.ends_with("root.json") || rest.ends_with("snapshot.json") || rest.ends_with("targets.json");
                                if !top {
                                    cache_role_rels.push(rest.to_string());
                                }
                            }
                        }
                    }
                    if !any_reserved {
                        let distinct: BTreeSet<&String> = cache_role_rels.iter().collect();
                        if distinct.len() != cache_role_rels.len() {
                            o.violate("two-role-names-one-file", format!("role files requested while caching: {cache_role_rels:?} for roles {:?}", sc.names));
                        }
                    }
                    match &cres {
                        Ok(()) => {
                            o.probe("metadata_cached");
                            if !any_reserved && cnames.len() != 4 + sc.names.len() {
                                o.violate("cache-role-files-collide", format!("{} roles but cache holds {cnames:?}", sc.names.len()));
                            }
                            // every role's metadata is in the cache, byte for byte, under some name
                            if !any_reserved {
                                let cached: Vec<Vec<u8>> = cnames.iter().filter_map(|n| std::fs::read(cdir.join(n)).ok()).collect();
                                for (i, d) in role_docs.iter().enumerate() {
                                    if !cached.iter().any(|c| c == d) {
                                        o.violate("cache-lacks-role-metadata", format!("the metadata of role {:?} is not among the cached files {cnames:?}", sc.names[i]));
                                    }
                                }
                            }
                        }
                        Err(e) => {
                            if !any_reserved {
                                o.violate("cache-metadata-failed-for-clean-repository", format!("cache_metadata failed with {} for role names {:?}", variant(e), sc.names));
                            }
                        }
                    }
                }
                Err(e) => {
                    // a clean repository must load unless the name cannot be represented
                    if !any_reserved {
                        if matches!(o.verdict, crate::engine::Verdict::Violation { .. }) {
                            // already explained by a request or directory rule above
                            return o;
                        }
                        let longest = sc.names.iter().map(|n| n.chars().map(|c| if c.is_ascii_alphanumeric() { 1 } else { 3 * c.len_utf8() }).sum::<usize>()).max().unwrap_or(0);
                        if longest >= 230 {
                            o.inconclusive("encoded-role-name-longer-than-a-file-name-may-be");
                            return o;
                        }
                        // Nothing but the role names varies in this world and every document is
                        // cleanly signed: a refusal means a name was not turned into a plain,
                        // distinct entry (the file could not be created, the URL could not be
                        // formed, or one role's file was served or stored as another's).
                        o.violate(
                            format!("clean-repository-refused-because-of-role-names:{}", variant(e)),
                            format!("clean repository with role names {:?} failed to load: {}", sc.names, variant(e)),
                        );
                        return o;
                    }
                }
            }

            // =========== client side again: a local file repository read with tough's own
            // FilesystemTransport (a request is a file that gets opened) ===========
            if !any_reserved && loaded.is_ok() {
                let fmeta = sbox.join("file-repo").join("metadata");
                let ftargets = sbox.join("file-repo").join("targets");
                std::fs::create_dir_all(&fmeta).unwrap();
                std::fs::create_dir_all(&ftargets).unwrap();
                let mut rel_of_role: Vec<Option<String>> = vec![None; role_docs.len()];
                let mut writable = true;
                for (rel, bytes) in &built.files.meta {
                    if rel.contains('/') || std::fs::write(fmeta.join(rel), bytes).is_err() {
                        writable = false;
                    }
                    if let Some(i) = role_docs.iter().position(|d| d == bytes) {
                        rel_of_role[i] = Some(rel.clone());
                    }
                }
                if writable && rel_of_role.iter().all(Option::is_some) {
                    let murl = url::Url::from_directory_path(&fmeta).unwrap();
                    let turl = url::Url::from_directory_path(&ftargets).unwrap();
                    let shipped = built.root.bytes();
                    let (m2, t2, s2) = (murl.clone(), turl.clone(), shipped.clone());
                    let positive = block_on(async move { tough::RepositoryLoader::new(&s2, m2, t2).transport(tough::FilesystemTransport).load().await.map(|_| ()) });
                    o.ev(format!("file repository load={:?}", positive.as_ref().map_err(variant)));
                    match positive {
                        Err(e) => o.violate(
                            format!("clean-file-repository-refused-because-of-role-names:{}", variant(&e)),
                            format!("a clean local repository with role names {:?}, each role file a plain entry of the metadata directory, failed to load: {}", sc.names, variant(&e)),
                        ),
                        Ok(()) => {
                            o.probe("file_repository_loaded");
                            // now one role's plain entry is absent, and copies of it sit wherever a
                            // decoded or half-decoded form of the name would point
                            let victim = (sc.world as usize) % role_docs.len();
                            let rel = rel_of_role[victim].clone().unwrap();
                            let proper = fmeta.join(&rel);
                            std::fs::remove_file(&proper).unwrap();
                            let decoded = crate::transport::pct_decode(&rel);
                            let mut candidates: Vec<std::path::PathBuf> = vec![fmeta.join(&decoded)];
                            if let Some((dir, _)) = decoded.rsplit_once('/') {
                                candidates.push(fmeta.join(dir).join(&rel));
                            }
                            let prefix = if sc.consistent { "1." } else { "" };
                            candidates.push(fmeta.join(format!("{prefix}{}.json", sc.names[victim])));
                            let mut decoys = 0;
                            for c in candidates {
                                let Some(n) = lexical(&c) else { continue };
                                if !n.starts_with(&sbox) || n == proper || n.exists() {
                                    continue;
                                }
                                if let Some(parent) = n.parent() {
                                    if std::fs::create_dir_all(parent).is_err() {
                                        continue;
                                    }
                                }
                                if std::fs::write(&n, &role_docs[victim]).is_ok() {
                                    decoys += 1;
                                }
                            }
                            let negative = block_on(async move { tough::RepositoryLoader::new(&shipped, murl, turl).transport(tough::FilesystemTransport).load().await.map(|_| ()) });
                            o.ev(format!("file repository without the plain entry of role {victim} (decoys placed: {}) load={:?}", decoys > 0, negative.as_ref().map_err(variant)));
                            if negative.is_ok() {
                                o.violate(
                                    "role-metadata-read-from-a-non-plain-entry",
                                    format!("the plain entry {rel:?} of role {:?} is absent from the metadata directory, yet the repository loaded: the role's metadata was taken from another path", sc.names[victim]),
                                );
                            } else if decoys > 0 {
                                o.probe("decoy_outside_plain_entry_ignored");
                            }
                        }
                    }
                }
            }
        }

        // =========== editor side (real editor writes the same roles) ===========
        {
            let root_path = sbox.join("editor-root.json");
            let spec = RepoSpec::basic(w, sc.consistent);
            let root_doc = Doc::signed_by(spec.root.signed(), &[keys::ed(w, world::KEY_ROOT)]);
            std::fs::write(&root_path, root_doc.bytes()).unwrap();
            let outdir = sbox.join("editor-out");
            std::fs::create_dir_all(&outdir).unwrap();
            let before = tree(&sbox);
            let names = sc.names.clone();
            let res: Result<(), String> = block_on(async {
                let one = NonZeroU64::new(1).unwrap();
                let mut ed = RepositoryEditor::new(&root_path).await.map_err(|e| format!("new: {}", variant(&e)))?;
                ed.targets_version(one).map_err(|e| variant(&e))?.targets_expires(dt(FAR)).map_err(|e| variant(&e))?;
                ed.snapshot_version(one).snapshot_expires(dt(FAR)).timestamp_version(one).timestamp_expires(dt(FAR));
                for (i, n) in names.iter().enumerate() {
                    let k = keys::ed(w, 20 + i as u64);
                    let paths = PathSet::Paths(vec![PathPattern::new(format!("r{i}/*")).map_err(|e| format!("pattern: {e}"))?]);
                    ed.delegate_role(n, &[k.source()], paths, one, dt(FAR), one).await.map_err(|e| format!("delegate_role: {}", variant(&e)))?;
                }
                let all_keys: Vec<Box<dyn tough::key_source::KeySource>> = (1..=4).map(|i| keys::ed(w, i).source()).collect();
                let signed = ed.sign(&all_keys).await.map_err(|e| format!("sign: {}", variant(&e)))?;
                signed.write(&outdir).await.map_err(|e| format!("write: {}", variant(&e)))?;
                Ok(())
            });
            drain_blocking();
            let enames = check_dir(&mut o, "editor", &sbox, &outdir, &before);
            o.ev(format!("editor={res:?} files={enames:?}"));
            if res.is_ok() {
                o.probe("editor_wrote");
                if !any_reserved && enames.len() != 4 + sc.names.len() {
                    o.violate("editor-role-files-collide", format!("{} roles but the editor wrote {enames:?}", sc.names.len()));
                }
            }
        }
        o.nontrivial = sc.names.iter().any(|n| n.chars().any(|c| !c.is_ascii_alphanumeric()));
        o
    }
}
