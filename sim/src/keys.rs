//! Key holders of the simulated deployment. Ed25519 keys are derived deterministically from a
//! 32-byte seed; ECDSA-P256 and RSA-2048 keys come from the committed fixture pool.

use crate::json::{self, obj, s, J};
use aws_lc_rs::rand::SystemRandom;
use aws_lc_rs::signature::{EcdsaKeyPair, Ed25519KeyPair, KeyPair, RsaKeyPair};
use std::sync::{Arc, OnceLock};
use tough::sign::Sign;

#[derive(Clone, Copy, Debug, PartialEq, Eq, Hash, PartialOrd, Ord, serde::Serialize, serde::Deserialize)]
pub enum Alg {
    Ed25519,
    Ecdsa,
    Rsa,
}

enum Inner {
    Ed(Ed25519KeyPair),
    Ec(EcdsaKeyPair),
    Rsa(RsaKeyPair),
}

pub struct SimKey {
    pub alg: Alg,
    /// hex key id computed with the reference canonicaliser
    pub id: String,
    /// the public key object as published in key tables
    pub json: J,
    /// private key in the encoding `tough::sign::parse_keypair` accepts
    pub private: Vec<u8>,
    inner: Inner,
}

impl std::fmt::Debug for SimKey {
    fn fmt(&self, f: &mut std::fmt::Formatter<'_>) -> std::fmt::Result {
        write!(f, "SimKey({:?},{})", self.alg, &self.id[..8])
    }
}

pub type K = Arc<SimKey>;

const ED_PKCS8_PREFIX: [u8; 16] = [
    0x30, 0x2e, 0x02, 0x01, 0x00, 0x30, 0x05, 0x06, 0x03, 0x2b, 0x65, 0x70, 0x04, 0x22, 0x04, 0x20,
];

fn keyid_of(json: &J) -> String {
    json::sha256_hex(&json::canon(json).expect("key json canonicalises"))
}

pub fn ed25519_from_seed(seed: &[u8; 32]) -> K {
    let mut der = ED_PKCS8_PREFIX.to_vec();
    der.extend_from_slice(seed);
    let kp = Ed25519KeyPair::from_pkcs8_maybe_unchecked(&der).expect("ed25519 pkcs8 v1");
    let public = hex::encode(kp.public_key().as_ref());
    let json = obj(vec![
        ("keytype", s("ed25519")),
        ("keyval", obj(vec![("public", J::Str(public))])),
        ("scheme", s("ed25519")),
    ]);
    Arc::new(SimKey {
        alg: Alg::Ed25519,
        id: keyid_of(&json),
        json,
        private: der,
        inner: Inner::Ed(kp),
    })
}

/// Deterministic Ed25519 key number `n` of world `world`.
pub fn ed(world: u64, n: u64) -> K {
    let mut r = crate::prng::Rng::new(crate::prng::mix(world, 0x6b65_7900 + n));
    let b = r.bytes(32);
    let mut seed = [0u8; 32];
    seed.copy_from_slice(&b);
    ed25519_from_seed(&seed)
}

fn tuf_key_json(k: &dyn Sign) -> J {
    let v = serde_json::to_value(k.tuf_key()).expect("key serialises");
    J::from_value(&v)
}

fn ecdsa_from_pkcs8(der: &[u8]) -> K {
    let kp = EcdsaKeyPair::from_pkcs8(&aws_lc_rs::signature::ECDSA_P256_SHA256_ASN1_SIGNING, der)
        .expect("ecdsa fixture");
    let json = tuf_key_json(&kp);
    Arc::new(SimKey {
        alg: Alg::Ecdsa,
        id: keyid_of(&json),
        json,
        private: der.to_vec(),
        inner: Inner::Ec(kp),
    })
}

fn rsa_from_pkcs8(der: &[u8]) -> K {
    let kp = RsaKeyPair::from_pkcs8(der).expect("rsa fixture");
    let json = tuf_key_json(&kp);
    let pem = pem::encode(&pem::Pem::new("PRIVATE KEY".to_owned(), der.to_vec()));
    Arc::new(SimKey {
        alg: Alg::Rsa,
        id: keyid_of(&json),
        json,
        private: pem.into_bytes(),
        inner: Inner::Rsa(kp),
    })
}

impl SimKey {
    /// Sign `msg`. Ed25519 is deterministic; ECDSA and RSA-PSS are randomised by aws-lc.
    pub fn sign(&self, msg: &[u8]) -> Vec<u8> {
        match &self.inner {
            Inner::Ed(k) => k.sign(msg).as_ref().to_vec(),
            Inner::Ec(k) => k.sign(&SystemRandom::new(), msg).expect("ecdsa sign").as_ref().to_vec(),
            Inner::Rsa(k) => {
                let mut sig = vec![0; k.public_modulus_len()];
                k.sign(&aws_lc_rs::signature::RSA_PSS_SHA256, &SystemRandom::new(), msg, &mut sig)
                    .expect("rsa sign");
                sig
            }
        }
    }
}

pub struct Pool {
    pub ecdsa: Vec<K>,
    pub rsa: Vec<K>,
}

static POOL: OnceLock<Pool> = OnceLock::new();

pub fn fixtures_dir() -> std::path::PathBuf {
    let base = std::env::var("VERIF_DIR").unwrap_or_else(|_| "/verif".to_string());
    std::path::PathBuf::from(base).join("fixtures").join("keys")
}

pub fn pool() -> &'static Pool {
    POOL.get_or_init(|| {
        let path = fixtures_dir().join("pool.json");
        let text = std::fs::read_to_string(&path)
            .unwrap_or_else(|e| panic!("cannot read key pool {}: {e}", path.display()));
        let v: serde_json::Value = serde_json::from_str(&text).expect("pool.json parses");
        let get = |name: &str| -> Vec<Vec<u8>> {
            v[name]
                .as_array()
                .expect("array")
                .iter()
                .map(|x| hex::decode(x.as_str().unwrap()).unwrap())
                .collect()
        };
        Pool {
            ecdsa: get("ecdsa_pkcs8").iter().map(|d| ecdsa_from_pkcs8(d)).collect(),
            rsa: get("rsa_pkcs8").iter().map(|d| rsa_from_pkcs8(d)).collect(),
        }
    })
}

/// Key `n` of world `world` with algorithm `alg` (fixture keys are shared across worlds; the index
/// is reduced modulo the pool size, so callers wanting distinct keys must use distinct small `n`).
pub fn key(world: u64, alg: Alg, n: u64) -> K {
    match alg {
        Alg::Ed25519 => ed(world, n),
        Alg::Ecdsa => {
            let p = &pool().ecdsa;
            p[(n as usize) % p.len()].clone()
        }
        Alg::Rsa => {
            let p = &pool().rsa;
            p[(n as usize) % p.len()].clone()
        }
    }
}

/// Write the fixture pool (run once; the result is committed).
pub fn generate_pool(n_ecdsa: usize, n_rsa: usize) -> String {
    use aws_lc_rs::encoding::AsDer;
    let rng = SystemRandom::new();
    let mut ec = Vec::new();
    for _ in 0..n_ecdsa {
        let doc = EcdsaKeyPair::generate_pkcs8(
            &aws_lc_rs::signature::ECDSA_P256_SHA256_ASN1_SIGNING,
            &rng,
        )
        .expect("ecdsa gen");
        ec.push(serde_json::Value::String(hex::encode(doc.as_ref())));
    }
    let mut rsa = Vec::new();
    for _ in 0..n_rsa {
        let kp = aws_lc_rs::rsa::KeyPair::generate(aws_lc_rs::rsa::KeySize::Rsa2048).expect("rsa gen");
        let der: aws_lc_rs::encoding::Pkcs8V1Der<'_> = kp.as_der().expect("rsa der");
        rsa.push(serde_json::Value::String(hex::encode(der.as_ref())));
    }
    serde_json::to_string_pretty(&serde_json::json!({"ecdsa_pkcs8": ec, "rsa_pkcs8": rsa})).unwrap()
}

/// In-memory key source for the real editor.
#[derive(Debug, Clone)]
pub struct MemKeySource(pub Vec<u8>);

#[async_trait::async_trait]
impl tough::key_source::KeySource for MemKeySource {
    async fn as_sign(
        &self,
    ) -> Result<Box<dyn Sign>, Box<dyn std::error::Error + Send + Sync + 'static>> {
        Ok(Box::new(tough::sign::parse_keypair(&self.0)?))
    }
    async fn write(
        &self,
        _value: &str,
        _key_id_hex: &str,
    ) -> Result<(), Box<dyn std::error::Error + Send + Sync + 'static>> {
        Ok(())
    }
}

impl SimKey {
    pub fn source(&self) -> Box<dyn tough::key_source::KeySource> {
        Box::new(MemKeySource(self.private.clone()))
    }
}
