//! C19 — a cached (cloned) repository is a faithful, loadable copy.

use crate::classify::variant;
use crate::engine::{block_on, drain_blocking, Check, Outcome, Scratch, Tier};
use crate::keys;
use crate::prng::Rng;
use crate::publisher::*;
use crate::transport::{Base, Event, Resp, SimTransport, Step};
use crate::world::{self, RepoSpec, RoleNode};
use futures::StreamExt;
use serde::{Deserialize, Serialize};
use serde_json::{json, Value};
use std::collections::BTreeMap;
use std::path::Path;
use tough::{FilesystemTransport, Repository, RepositoryLoader, TargetName};
use url::Url;

#[derive(Clone, Debug, Serialize, Deserialize)]
pub struct TargetSc {
    pub name: String,
    pub size: usize,
    /// None = top-level targets, Some(i) = delegated role i
    pub role: Option<usize>,
}

#[derive(Clone, Debug, Serialize, Deserialize)]
pub struct Sc {
    pub world: u64,
    pub consistent: bool,
    /// number of root versions published (>= 1); online keys rotate at each version if `rotate`
    pub roots: usize,
    pub rotate_online_keys: bool,
    /// version of the root the cloning client ships (1-based, <= roots)
    pub shipped: usize,
    pub role_names: Vec<String>,
    pub targets: Vec<TargetSc>,
    /// indices into `targets` to request; None = all
    pub subset: Option<Vec<usize>>,
    pub ask_unlisted: bool,
    pub root_chain: bool,
    /// index into `targets` whose source bytes are corrupted
    pub corrupt: Option<usize>,
    /// before the judged clone, a first `cache()` into other directories is abandoned (its future
    /// dropped) while this target (index modulo the number of targets) is half transferred
    #[serde(default)]
    pub abandon: Option<usize>,
    /// afterwards the repository publishes an update in which one cloned target has other bytes of
    /// the same length (all versions + 1) and the client clones again into the same two directories
    #[serde(default)]
    pub recache: bool,
}

pub struct C19;

const ROLE_NAMES: [&str; 8] = ["r1", "role two", "a/b", "x.json", "é-role", "..", "%41", "deep.role"];
const TARGET_NAMES: [&str; 12] = ["a.bin", "b", "dir/t.bin", "dir/sub/u.bin", "with space.txt", "ünï.dat", "a/../c.bin", "x.json", "1.root.json", "%41", "tilde~", "dir/../d.bin"];

fn content(world: u64, i: usize, size: usize) -> Vec<u8> {
    Rng::new(crate::prng::mix(world, 7000 + i as u64)).bytes(size)
}

fn online(world: u64, gen: usize, role: u64) -> crate::keys::K {
    keys::ed(world, 500 + gen as u64 * 4 + role)
}

fn root_spec(sc: &Sc, v: usize) -> RootSpec {
    let gen = if sc.rotate_online_keys { v } else { 0 };
    RootSpec {
        version: v as u64,
        expires: FAR,
        consistent_snapshot: sc.consistent,
        root: RoleKeys::one(&keys::ed(sc.world, 1)),
        timestamp: RoleKeys::one(&online(sc.world, gen, 0)),
        snapshot: RoleKeys::one(&online(sc.world, gen, 1)),
        targets: RoleKeys::one(&online(sc.world, gen, 2)),
    }
}

fn tree(dir: &Path) -> BTreeMap<String, (char, u64)> {
    fn walk(base: &Path, d: &Path, out: &mut BTreeMap<String, (char, u64)>) {
        let Ok(rd) = std::fs::read_dir(d) else { return };
        for e in rd.flatten() {
            let p = e.path();
            let rel = p.strip_prefix(base).unwrap().to_string_lossy().to_string();
            match std::fs::symlink_metadata(&p) {
                Ok(m) if m.is_dir() => {
                    out.insert(rel, ('d', 0));
                    walk(base, &p, out);
                }
                Ok(m) if m.is_file() => {
                    out.insert(rel, ('f', m.len()));
                }
                _ => {
                    out.insert(rel, ('o', 0));
                }
            }
        }
    }
    let mut out = BTreeMap::new();
    walk(dir, dir, &mut out);
    out
}

async fn read_all(repo: &Repository, name: &str) -> Result<Option<Vec<u8>>, String> {
    let tn = TargetName::new(name).map_err(|e| format!("{e}"))?;
    match repo.read_target(&tn).await {
        Err(e) => Err(variant(&e)),
        Ok(None) => Ok(None),
        Ok(Some(mut s)) => {
            let mut got = Vec::new();
            while let Some(item) = s.next().await {
                match item {
                    Ok(b) => got.extend_from_slice(&b),
                    Err(e) => return Err(variant(&e)),
                }
            }
            Ok(Some(got))
        }
    }
}

impl Check for C19 {
    type Scenario = Sc;
    fn id(&self) -> &'static str {
        "C19"
    }
    fn rule(&self) -> String {
        "foreign-publisher repositories with 1..3 root versions (online keys optionally rotated per version), 0..2 delegated roles with odd names, 0..6 targets with odd names (sub-directories, spaces, non-ASCII, names needing resolution, names that look like metadata files) in any role, both consistent-snapshot settings; cache() with all targets or a subset (optionally naming an unlisted target), with/without root chain, optionally one source target corrupted; in a quarter of the runs a first cache() into other directories is abandoned (future dropped) while one target is half transferred; then reload from the two directories with the real FilesystemTransport; in a third of the runs the repository then publishes an update (one cloned target with other bytes of the same length) and is cloned again into the same directories; non-trivial = the cache held at least one target or a root chain, or a corrupted source was fetched; distinct = distinct canonical trace".into()
    }
    fn assumptions(&self) -> Vec<String> {
        vec![
            "reload uses the shipped root when the root chain was cached and the final trusted root otherwise ('a client holding the same root')".into(),
            "tokio::fs writes of cache() are drained (FIFO blocking thread + barrier) before the copy is inspected: Repository::cache does not flush the metadata files it writes, so without the barrier the copy could be observed incomplete (recorded as an observation in DESIGN.md, not judged here)".into(),
        ]
    }
    fn components(&self) -> Value {
        json!({"real": ["tough load", "Repository::cache / cache_metadata / cache_target / save_target", "FilesystemTransport for the reload", "real directories in a scratch sandbox"], "stub": ["transport of the source repository (SimTransport)", "foreign publisher"]})
    }
    fn runs(&self, tier: Tier) -> u64 {
        match tier {
            Tier::Quick => 3_000,
            Tier::Thorough => 100_000,
        }
    }
    fn required_faults(&self, _t: Tier) -> Vec<&'static str> {
        vec!["corrupted_source_target", "unlisted_target_requested", "odd_role_name", "odd_target_name", "clone_abandoned_mid_target", "clone_repeated_into_the_same_directories"]
    }
    fn required_probes(&self, _t: Tier) -> Vec<&'static str> {
        vec!["clone_reloaded_with_identical_versions", "targets_read_back_identical", "root_chain_complete", "corrupted_target_not_stored"]
    }
    fn generate(&self, seed: u64, _tier: Tier) -> Sc {
        let mut r = Rng::new(seed);
        let roots = 1 + r.usize_below(3);
        let nroles = r.usize_below(3);
        let mut role_names: Vec<String> = Vec::new();
        for _ in 0..nroles {
            let n = (*r.pick(&ROLE_NAMES)).to_string();
            if !role_names.contains(&n) {
                role_names.push(n);
            }
        }
        let nt = r.usize_below(7);
        let mut targets: Vec<TargetSc> = Vec::new();
        for _ in 0..nt {
            let name = (*r.pick(&TARGET_NAMES)).to_string();
            if targets.iter().any(|t| t.name == name) {
                continue;
            }
            let role = if role_names.is_empty() || r.chance(1, 2) { None } else { Some(r.usize_below(role_names.len())) };
            let size = if r.chance(1, 6) { 0 } else { r.usize_below(3000) };
            targets.push(TargetSc { name, size, role });
        }
        let subset = if r.chance(1, 2) || targets.is_empty() {
            None
        } else {
            let k = r.usize_below(targets.len() + 1);
            let mut idx: Vec<usize> = (0..targets.len()).collect();
            r.shuffle(&mut idx);
            idx.truncate(k);
            idx.sort_unstable();
            Some(idx)
        };
        let corrupt = if !targets.is_empty() && r.chance(1, 4) { Some(r.usize_below(targets.len())) } else { None };
        Sc {
            world: r.below(1_000_003),
            consistent: r.chance(1, 2),
            roots,
            rotate_online_keys: r.chance(1, 2),
            shipped: 1 + r.usize_below(roots),
            role_names,
            targets,
            ask_unlisted: subset.is_some() && r.chance(1, 10),
            subset,
            root_chain: r.chance(1, 2),
            corrupt,
            abandon: if r.chance(1, 4) { Some(r.usize_below(8)) } else { None },
            recache: r.chance(1, 3),
        }
    }
    fn shrink(&self, sc: &Sc) -> Vec<Sc> {
        let mut v = Vec::new();
        if sc.corrupt.is_some() {
            v.push(Sc { corrupt: None, ..sc.clone() });
        }
        if sc.recache {
            v.push(Sc { recache: false, ..sc.clone() });
        }
        if sc.abandon.is_some() {
            v.push(Sc { abandon: None, ..sc.clone() });
        }
        if sc.consistent {
            v.push(Sc { consistent: false, ..sc.clone() });
        }
        if sc.roots > 1 {
            v.push(Sc { roots: 1, shipped: 1, ..sc.clone() });
        }
        if sc.subset.is_some() {
            v.push(Sc { subset: None, ask_unlisted: false, ..sc.clone() });
        }
        for i in 0..sc.targets.len() {
            let mut s = sc.clone();
            s.targets.remove(i);
            s.subset = s.subset.map(|x| x.into_iter().filter(|j| *j != i).map(|j| if j > i { j - 1 } else { j }).collect());
            s.corrupt = match s.corrupt {
                Some(c) if c == i => None,
                Some(c) if c > i => Some(c - 1),
                c => c,
            };
            v.push(s);
        }
        if !sc.role_names.is_empty() && sc.targets.iter().all(|t| t.role.is_none()) {
            v.push(Sc { role_names: vec![], ..sc.clone() });
        }
        v
    }
    fn run(&self, sc: &Sc) -> Outcome {
        let mut o = Outcome::new();
        let w = sc.world;
        if sc.roots == 0 || sc.shipped == 0 || sc.shipped > sc.roots {
            o.harness("degenerate scenario");
            return o;
        }
        // ---- source repository
        let mut spec = RepoSpec::basic(w, sc.consistent);
        spec.root = root_spec(sc, sc.roots);
        for (i, n) in sc.role_names.iter().enumerate() {
            spec.delegated.push(RoleNode::simple(w, 40 + i as u64, n, &["*"]));
            // '*' crosses '/' in the client's matcher; hash-prefix "" would do as well
            spec.delegated[i].paths = Paths::HashPrefixes(vec![String::new()]);
        }
        let mut contents: BTreeMap<String, Vec<u8>> = BTreeMap::new();
        for (i, t) in sc.targets.iter().enumerate() {
            let c = content(w, i, t.size);
            match t.role {
                None => spec.add_target(&t.name, &c),
                Some(ri) if ri < spec.delegated.len() => {
                    spec.delegated[ri].targets.push(TargetEntry::of(&t.name, &c));
                    spec.contents.push((t.name.clone(), c.clone()));
                }
                Some(_) => {
                    o.harness("target refers to a missing role");
                    return o;
                }
            }
            contents.insert(t.name.clone(), c);
        }
        let built = world::build(&spec);
        let mut meta = built.files.meta.clone();
        meta.retain(|k, _| !k.ends_with(".root.json"));
        let mut root_files: Vec<Vec<u8>> = Vec::new();
        for v in 1..=sc.roots {
            let d = Doc::signed_by(root_spec(sc, v).signed(), &[keys::ed(w, 1)]);
            meta.insert(format!("{v}.root.json"), d.bytes());
            root_files.push(d.bytes());
        }
        // target files are requested under their *resolved* names
        let resolve = |name: &str| -> String {
            let mut segs: Vec<&str> = Vec::new();
            for sg in name.split('/') {
                match sg {
                    "" | "." => {}
                    ".." => {
                        segs.pop();
                    }
                    x => segs.push(x),
                }
            }
            segs.join("/")
        };
        let corrupt_name = sc.corrupt.and_then(|i| sc.targets.get(i)).map(|t| t.name.clone());
        let corrupted = |c: &[u8]| -> Vec<u8> {
            let mut bad = c.to_vec();
            if bad.is_empty() {
                bad.push(b'!');
            } else {
                let l = bad.len();
                bad[l / 2] ^= 0x10;
            }
            bad
        };
        let mut tfiles: std::collections::HashMap<String, Vec<u8>> = std::collections::HashMap::new();
        for (n, c) in &contents {
            let served = if corrupt_name.as_deref() == Some(n.as_str()) { corrupted(c) } else { c.clone() };
            tfiles.insert(world::target_file_name(sc.consistent, &resolve(n), c), served);
        }
        let corrupt_rel = corrupt_name.as_ref().map(|n| world::target_file_name(sc.consistent, &resolve(n), &contents[n]));
        // the target during whose transfer a first cache() is abandoned: served in two halves with
        // a "not ready" in between, which is where the caller walks away
        let abandon_rel: Option<String> = sc.abandon.filter(|_| !sc.targets.is_empty()).map(|i| {
            let n = &sc.targets[i % sc.targets.len()].name;
            world::target_file_name(sc.consistent, &resolve(n), &contents[n])
        });
        let armed = std::sync::Arc::new(std::sync::atomic::AtomicBool::new(false));
        let walk_away = std::sync::Arc::new(tokio::sync::Notify::new());
        let (abandon_rel2, abandon_rel3, armed2, walk2) = (abandon_rel.clone(), abandon_rel.clone(), armed.clone(), walk_away.clone());
        let transport = SimTransport::with_hook(
            move |r| match r.base {
                Base::Metadata => meta.get(&r.rel).map_or(Resp::not_found(), |b| Resp::whole(b)),
                Base::Targets => {
                    // names needing resolution are requested under their resolved name
                    let rel = if tfiles.contains_key(&r.rel) { r.rel.clone() } else { crate::transport::pct_decode(&r.rel) };
                    match tfiles.get(&rel) {
                        Some(b) if abandon_rel2.as_deref() == Some(rel.as_str()) => {
                            let h = b.len() / 2;
                            Resp::Body(vec![Step::Data(b[..h].to_vec()), Step::Pending, Step::Data(b[h..].to_vec())])
                        }
                        Some(b) => Resp::whole(b),
                        None => Resp::not_found(),
                    }
                }
                Base::Unknown => Resp::not_found(),
            },
            move |ev| {
                if let Event::Poll { rel, step: 1, .. } = ev {
                    let is_it = abandon_rel3.as_deref().is_some_and(|a| a == rel || a == crate::transport::pct_decode(rel));
                    if is_it && armed2.swap(false, std::sync::atomic::Ordering::SeqCst) {
                        walk2.notify_one();
                    }
                }
            },
        );
        o.ev(format!(
            "cfg consistent={} roots={} rotate={} shipped={} roles={:?} targets={:?} subset={:?} unlisted={} chain={} corrupt={:?} abandon={:?}",
            sc.consistent, sc.roots, sc.rotate_online_keys, sc.shipped, sc.role_names,
            sc.targets.iter().map(|t| (t.name.as_str(), t.size, t.role)).collect::<Vec<_>>(), sc.subset, sc.ask_unlisted, sc.root_chain, sc.corrupt, sc.abandon
        ));
        for n in &sc.role_names {
            if n.chars().any(|c| !c.is_ascii_alphanumeric()) {
                o.fault("odd_role_name");
            }
        }
        for t in &sc.targets {
            if t.name.chars().any(|c| !(c.is_ascii_alphanumeric() || c == '.')) {
                o.fault("odd_target_name");
            }
        }
        let shipped = root_files[sc.shipped - 1].clone();
        let t2 = transport.clone();
        let repo = match block_on(async { world::load(&shipped, t2, None, world::LoadOpts::default()).await }) {
            Ok(r) => r,
            Err(e) => {
                o.harness(format!("clean source repository failed to load: {}", variant(&e)));
                return o;
            }
        };
        // the served target file names use the *resolved* target name; register them
        // (world::build stores them under the raw name)
        // -> handled by serving both below if needed

        // ---- clone
        let scratch = Scratch::new();
        let sbox = scratch.dir("S");
        std::fs::write(sbox.join("canary"), b"canary").unwrap();
        std::fs::create_dir_all(sbox.join("sibling")).unwrap();
        std::fs::write(sbox.join("sibling").join("canary"), b"canary").unwrap();
        let mdir = sbox.join("clone-metadata");
        let tdir = sbox.join("clone-targets");
        // ---- a first clone that is abandoned half-way through one target
        if abandon_rel.is_some() {
            let (m0, t0) = (sbox.join("abandoned-metadata"), sbox.join("abandoned-targets"));
            let before0 = tree(&sbox);
            armed.store(true, std::sync::atomic::Ordering::SeqCst);
            let finished = block_on(async {
                tokio::select! {
                    biased;
                    () = walk_away.notified() => false,
                    _ = repo.cache(&m0, &t0, None::<&[String]>, sc.root_chain) => true,
                }
            });
            armed.store(false, std::sync::atomic::Ordering::SeqCst);
            drain_blocking();
            if finished {
                o.ev("first clone ran to its end before the abandonment point".to_string());
            } else {
                o.fault("clone_abandoned_mid_target");
                let after0 = tree(&sbox);
                let inside0 = |k: &str| ["abandoned-metadata", "abandoned-targets"].iter().any(|d| k == *d || k.starts_with(&format!("{d}/")));
                let ob: BTreeMap<_, _> = before0.iter().filter(|(k, _)| !inside0(k)).collect();
                let oa: BTreeMap<_, _> = after0.iter().filter(|(k, _)| !inside0(k)).collect();
                if ob != oa {
                    o.violate("cache-wrote-outside-its-directories", format!("abandoned clone: sandbox outside its two directories changed: {ob:?} -> {oa:?}"));
                }
                // whatever regular file sits in the targets directory is a complete, genuine target
                let mut partial: Vec<String> = Vec::new();
                for (k, (kind, _)) in &after0 {
                    if *kind == 'f' && k.starts_with("abandoned-targets/") {
                        let b = std::fs::read(sbox.join(k)).unwrap_or_default();
                        if !contents.values().any(|c| *c == b) {
                            partial.push(k.clone());
                        }
                    }
                }
                o.ev(format!("first clone abandoned; incomplete files in its targets directory: {partial:?}"));
                if partial.is_empty() {
                    o.probe("abandoned_clone_left_only_complete_targets");
                } else {
                    o.violate("abandoned-clone-left-incomplete-target", format!("after cache() was abandoned mid-transfer the targets directory holds files that are not complete targets: {partial:?}"));
                }
            }
            let _ = std::fs::remove_dir_all(&m0);
            let _ = std::fs::remove_dir_all(&t0);
        }
        let before = tree(&sbox);
        let mut wanted: Vec<String> = match &sc.subset {
            None => sc.targets.iter().map(|t| t.name.clone()).collect(),
            Some(ix) => ix.iter().filter_map(|i| sc.targets.get(*i)).map(|t| t.name.clone()).collect(),
        };
        let mut subset_arg: Option<Vec<String>> = sc.subset.as_ref().map(|_| wanted.clone());
        if sc.ask_unlisted {
            if let Some(s) = subset_arg.as_mut() {
                s.push("not-listed-anywhere.bin".into());
                o.fault("unlisted_target_requested");
            }
        }
        let cres = block_on(async { repo.cache(&mdir, &tdir, subset_arg.as_deref(), sc.root_chain).await });
        drain_blocking();
        let after = tree(&sbox);
        o.ev(format!("cache -> {:?}", cres.as_ref().map_err(variant)));
        // (i) nothing outside the two directories
        let inside = |k: &str| ["clone-metadata", "clone-targets"].iter().any(|d| k == *d || k.starts_with(&format!("{d}/")));
        let ob: BTreeMap<_, _> = before.iter().filter(|(k, _)| !inside(k)).collect();
        let oa: BTreeMap<_, _> = after.iter().filter(|(k, _)| !inside(k)).collect();
        if ob != oa {
            o.violate("cache-wrote-outside-its-directories", format!("sandbox outside the two directories changed: {ob:?} -> {oa:?}"));
        }
        // expected failure causes
        let corrupt_wanted = corrupt_name.as_ref().is_some_and(|n| wanted.contains(n));
        let must_fail = corrupt_wanted || (sc.ask_unlisted && sc.subset.is_some());
        let fetched_corrupt = corrupt_rel.as_ref().is_some_and(|rel| transport.log().iter().any(|l| !l.is_meta && (l.rel == *rel || crate::transport::pct_decode(&l.rel) == *rel) && l.steps_pulled > 0));
        if fetched_corrupt {
            o.fault("corrupted_source_target");
        }
        // a target that failed verification is never stored
        if let Some(n) = &corrupt_name {
            let c = &contents[n];
            let bad = corrupted(c);
            let stored = after.iter().any(|(k, (kind, _))| *kind == 'f' && k.starts_with("clone-targets/") && std::fs::read(sbox.join(k)).is_ok_and(|b| b == bad));
            if stored {
                o.violate("unverified-target-stored-in-clone", format!("the corrupted bytes of {n:?} are present in the targets directory"));
            } else if fetched_corrupt {
                o.probe("corrupted_target_not_stored");
            }
        }
        match (&cres, must_fail) {
            (Ok(()), true) => {
                if corrupt_wanted {
                    o.violate("cache-succeeded-despite-corrupted-target", "cache() reported success although a requested target failed verification");
                } else {
                    o.violate("cache-succeeded-despite-unlisted-target", "cache() reported success although an unlisted target was requested");
                }
                return o;
            }
            (Err(_), true) => {
                o.nontrivial = fetched_corrupt || sc.ask_unlisted;
                return o;
            }
            (Err(e), false) => {
                o.violate("cache-of-clean-repository-failed", format!("cache() failed with {}", variant(e)));
                return o;
            }
            (Ok(()), false) => {}
        }
        // ---- the copy: root chain
        if sc.root_chain {
            let missing: Vec<usize> = (1..=sc.roots).filter(|v| !after.contains_key(&format!("clone-metadata/{v}.root.json"))).collect();
            if missing.is_empty() {
                o.probe("root_chain_complete");
            } else {
                o.violate("root-chain-incomplete", format!("root versions {missing:?} missing from the cached metadata directory"));
            }
            for v in 1..=sc.roots {
                if let Ok(b) = std::fs::read(mdir.join(format!("{v}.root.json"))) {
                    if b != root_files[v - 1] {
                        o.violate("cached-root-differs", format!("{v}.root.json differs from the published file"));
                    }
                }
            }
        }
        // ---- reload from the two directories
        let reload_root = if sc.root_chain { shipped.clone() } else { root_files[sc.roots - 1].clone() };
        let murl = Url::from_directory_path(&mdir).unwrap();
        let turl = Url::from_directory_path(&tdir).unwrap();
        let reloaded = block_on(async { RepositoryLoader::new(&reload_root, murl, turl).transport(FilesystemTransport).load().await });
        let re = match reloaded {
            Ok(r) => r,
            Err(e) => {
                o.violate("clone-does-not-load", format!("loading from the cached directories failed with {}", variant(&e)));
                return o;
            }
        };
        let versions = |r: &Repository| {
            let mut v = vec![
                ("root".to_string(), r.root().signed.version.get()),
                ("timestamp".to_string(), r.timestamp().signed.version.get()),
                ("snapshot".to_string(), r.snapshot().signed.version.get()),
                ("targets".to_string(), r.targets().signed.version.get()),
            ];
            for n in &sc.role_names {
                v.push((n.clone(), r.delegated_role(n).and_then(|d| d.targets.as_ref()).map_or(0, |t| t.signed.version.get())));
            }
            v
        };
        if versions(&repo) != versions(&re) {
            o.violate("clone-role-versions-differ", format!("original {:?}, clone {:?}", versions(&repo), versions(&re)));
        } else {
            o.probe("clone_reloaded_with_identical_versions");
        }
        wanted.sort();
        wanted.dedup();
        let mut all_ok = !wanted.is_empty();
        let mut deferred: Option<String> = None;
        for n in &wanted {
            let got = block_on(read_all(&re, n));
            match got {
                Ok(Some(b)) if b == contents[n] => {}
                other => {
                    all_ok = false;
                    // names the URL library percent-encodes cannot be read through file:// URLs
                    // (FilesystemTransport does not decode the URL path): own key for that class
                    let enc = n.chars().any(|c| c == ' ' || !c.is_ascii() || "\"<>`{}#?".contains(c));
                    let detail = format!("target {n:?} read back from the clone as {:?}", other.map(|x| x.map(|b| b.len())));
                    if enc {
                        // reported last, so that it cannot mask a different violation of this run
                        deferred.get_or_insert(detail);
                    } else {
                        o.violate("cloned-target-differs", detail);
                    }
                }
            }
        }
        if let Some(d) = deferred {
            o.violate("cloned-target-differs:name-needs-url-encoding", d);
        }
        if all_ok {
            o.probe("targets_read_back_identical");
        }
        // ---- the repository moves on; the same directories are used for the next clone
        let plain = |n: &str| !n.chars().any(|c| c == ' ' || !c.is_ascii() || "\"<>`{}#?".contains(c));
        let changed = wanted.iter().find(|n| plain(n) && !contents[n.as_str()].is_empty()).cloned();
        if let (true, Some(cn), None) = (sc.recache, changed, &corrupt_name) {
            let mut spec2 = RepoSpec::basic(w, sc.consistent);
            spec2.root = root_spec(sc, sc.roots);
            spec2.ts_version += 1;
            spec2.snap_version += 1;
            spec2.targets_version += 1;
            for (i, n) in sc.role_names.iter().enumerate() {
                spec2.delegated.push(RoleNode::simple(w, 40 + i as u64, n, &["*"]));
                spec2.delegated[i].paths = Paths::HashPrefixes(vec![String::new()]);
                spec2.delegated[i].version += 1;
            }
            let mut contents2: BTreeMap<String, Vec<u8>> = BTreeMap::new();
            for (i, t) in sc.targets.iter().enumerate() {
                let mut c = content(w, i, t.size);
                if t.name == cn {
                    for b in c.iter_mut() {
                        *b ^= 0x5a;
                    }
                }
                match t.role {
                    None => spec2.add_target(&t.name, &c),
                    Some(ri) => {
                        spec2.delegated[ri].targets.push(TargetEntry::of(&t.name, &c));
                        spec2.contents.push((t.name.clone(), c.clone()));
                    }
                }
                contents2.insert(t.name.clone(), c);
            }
            let built2 = world::build(&spec2);
            let mut meta2 = built2.files.meta.clone();
            meta2.retain(|k, _| !k.ends_with(".root.json"));
            for (v, b) in root_files.iter().enumerate() {
                meta2.insert(format!("{}.root.json", v + 1), b.clone());
            }
            let mut tfiles2: std::collections::HashMap<String, Vec<u8>> = std::collections::HashMap::new();
            for (n, c) in &contents2 {
                tfiles2.insert(world::target_file_name(sc.consistent, &resolve(n), c), c.clone());
            }
            let transport2 = SimTransport::new(move |r| match r.base {
                Base::Metadata => meta2.get(&r.rel).map_or(Resp::not_found(), |b| Resp::whole(b)),
                Base::Targets => match tfiles2.get(&r.rel).or_else(|| tfiles2.get(&crate::transport::pct_decode(&r.rel))) {
                    Some(b) => Resp::whole(b),
                    None => Resp::not_found(),
                },
                Base::Unknown => Resp::not_found(),
            });
            let shipped2 = shipped.clone();
            let repo2 = match block_on(async { world::load(&shipped2, transport2, None, world::LoadOpts::default()).await }) {
                Ok(r) => r,
                Err(e) => {
                    o.harness(format!("the updated source repository failed to load: {}", variant(&e)));
                    return o;
                }
            };
            o.fault("clone_repeated_into_the_same_directories");
            let subset2: Option<Vec<String>> = sc.subset.as_ref().map(|_| wanted.clone());
            let c2 = block_on(async { repo2.cache(&mdir, &tdir, subset2.as_deref(), sc.root_chain).await });
            drain_blocking();
            o.ev(format!("second clone after an update of {cn:?} -> {:?}", c2.as_ref().map_err(variant)));
            match c2 {
                Err(e) => o.violate("recache-of-updated-repository-failed", format!("cache() into the directories of the previous clone failed with {}", variant(&e))),
                Ok(()) => {
                    let murl = Url::from_directory_path(&mdir).unwrap();
                    let turl = Url::from_directory_path(&tdir).unwrap();
                    match block_on(async { RepositoryLoader::new(&reload_root, murl, turl).transport(FilesystemTransport).load().await }) {
                        Err(e) => o.violate("recached-clone-does-not-load", variant(&e)),
                        Ok(re2) => {
                            if versions(&repo2) != versions(&re2) {
                                o.violate("recached-clone-role-versions-differ", format!("updated original {:?}, clone {:?}", versions(&repo2), versions(&re2)));
                            }
                            let got = block_on(read_all(&re2, &cn));
                            if got.as_ref().ok().and_then(|x| x.as_ref()) == Some(&contents2[&cn]) {
                                o.probe("recached_clone_serves_the_updated_target");
                            } else {
                                o.violate("recached-target-differs", format!("after the update and a second cache() into the same directories, {cn:?} reads back as {:?}", got.map(|x| x.map(|b| b.len()))));
                            }
                        }
                    }
                }
            }
        }
        o.nontrivial = !wanted.is_empty() || sc.root_chain;
        o
    }
}
