//! C09 — work and data taken from an untrusted repository are bounded.

use crate::classify::{classify, variant, Class};
use crate::engine::{block_on, Check, Outcome, Scratch, Tier};
use crate::keys;
use crate::prng::Rng;
use crate::publisher::*;
use crate::transport::{Base, Resp, SimTransport, Step};
use crate::world::{self, sign_threshold};
use serde::{Deserialize, Serialize};
use serde_json::{json, Value};
use std::collections::HashMap;
use tough::Limits;

#[derive(Clone, Copy, Debug, Serialize, Deserialize, PartialEq, Eq)]
pub enum Lim {
    Zero,
    SizeMinus1,
    Exact,
    Default,
    Huge,
}
const LIMS: [Lim; 5] = [Lim::Zero, Lim::SizeMinus1, Lim::Exact, Lim::Default, Lim::Huge];

#[derive(Clone, Debug, Serialize, Deserialize, PartialEq, Eq)]
pub struct RoleDef {
    pub name: String,
    pub delegates: Vec<String>,
    pub n_targets: usize,
}

#[derive(Clone, Copy, Debug, Serialize, Deserialize, PartialEq, Eq)]
pub enum Hostile {
    /// valid document followed by this many bytes of whitespace padding
    Pad(usize),
    /// valid document minus its last byte, then endless chunks of this size
    Endless(usize),
}

#[derive(Clone, Debug, Serialize, Deserialize)]
pub struct Sc {
    pub world: u64,
    pub consistent: bool,
    pub lim_root: Lim,
    pub lim_ts: Lim,
    pub lim_snap: Lim,
    pub lim_tg: Lim,
    pub max_root_updates: u64,
    /// newer valid roots available beyond the shipped one; None = an endless generator
    pub newer_roots: Option<u64>,
    pub ts_pins_len: bool,
    pub snap_pins_len: bool,
    /// does timestamp list a digest for snapshot / snapshot one for targets (length and digest
    /// are independently optional; without a digest a padded file within its length is legitimate)
    #[serde(default = "yes")]
    pub ts_pins_hash: bool,
    #[serde(default = "yes")]
    pub snap_pins_hash: bool,
    /// delegated role names contain characters that are escaped in file names and URLs
    /// (space, non-ASCII, slash): every role `x` is published as `x ö/1`
    #[serde(default)]
    pub odd_names: bool,
    pub top_delegates: Vec<String>,
    pub top_targets: usize,
    pub roles: Vec<RoleDef>,
    /// file kind ("root", "timestamp", "snapshot", "targets" or a role name) -> hostile stream
    pub hostile: Vec<(String, Hostile)>,
    /// version of the root the client ships in the judged cycle (1 = the oldest)
    #[serde(default = "one")]
    pub shipped: u64,
    /// an earlier, clean cycle on the same datastore: (root version shipped then, newest root
    /// version published then); leaves its trust state (incl. the last trusted root) behind
    #[serde(default)]
    pub prior: Option<(u64, u64)>,
}

fn one() -> u64 {
    1
}

fn yes() -> bool {
    true
}

const ODD_SUFFIX: &str = " \u{f6}/1";

/// the name a role is published under
fn published(sc: &Sc, name: &str) -> String {
    if sc.odd_names {
        format!("{name}{ODD_SUFFIX}")
    } else {
        name.to_string()
    }
}

pub struct C09;

fn rkey(world: u64, idx: usize) -> crate::keys::K {
    keys::ed(world, 100 + idx as u64)
}

fn entries(prefix: &str, n: usize) -> Vec<TargetEntry> {
    (0..n).map(|i| TargetEntry::of(&format!("{prefix}/file-{i:03}.bin"), format!("{prefix}-{i}").as_bytes())).collect()
}

struct Built {
    shipped: Vec<u8>,
    files: HashMap<String, Vec<u8>>,
    /// file kind -> (relative name requested, genuine size)
    sizes: HashMap<String, usize>,
    root_size: usize,
    ts_pin: Option<u64>,
    tg_pin: Option<u64>,
    role_pins: HashMap<String, Option<u64>>,
    pairs: usize,
    cyclic: bool,
}

fn is_cyclic(sc: &Sc) -> bool {
    // DFS from the top-level delegates
    fn visit(name: &str, roles: &[RoleDef], stack: &mut Vec<String>) -> bool {
        if stack.iter().any(|s| s == name) {
            return true;
        }
        stack.push(name.to_string());
        if let Some(r) = roles.iter().find(|r| r.name == name) {
            for d in &r.delegates {
                if visit(d, roles, stack) {
                    return true;
                }
            }
        }
        stack.pop();
        false
    }
    sc.top_delegates.iter().any(|d| visit(d, &sc.roles, &mut Vec::new()))
}

fn root_spec(sc: &Sc, version: u64) -> RootSpec {
    let w = sc.world;
    RootSpec {
        version,
        expires: FAR,
        consistent_snapshot: sc.consistent,
        root: RoleKeys::one(&keys::ed(w, 1)),
        timestamp: RoleKeys::one(&keys::ed(w, 2)),
        snapshot: RoleKeys::one(&keys::ed(w, 3)),
        targets: RoleKeys::one(&keys::ed(w, 4)),
    }
}

fn root_bytes(sc: &Sc, version: u64) -> Vec<u8> {
    Doc::signed_by(root_spec(sc, version).signed(), &[keys::ed(sc.world, 1)]).bytes()
}

fn build(sc: &Sc) -> Built {
    let w = sc.world;
    let idx_of = |name: &str| sc.roles.iter().position(|r| r.name == name).unwrap_or(0);
    let spec_of = |name: &str| DelegSpec {
        name: published(sc, name),
        keys: RoleKeys::one(&rkey(w, idx_of(name))),
        paths: Paths::Globs(vec!["*".into()]),
        terminating: false,
    };
    let mut files = HashMap::new();
    let mut sizes = HashMap::new();
    let mut metas: Vec<(String, Meta)> = Vec::new();
    let mut role_pins = HashMap::new();
    let mut pairs = sc.top_delegates.len();
    let mut role_bytes: Vec<(String, Vec<u8>)> = Vec::new();
    for (i, r) in sc.roles.iter().enumerate() {
        let specs: Vec<DelegSpec> = r.delegates.iter().map(|d| spec_of(d)).collect();
        pairs += r.delegates.len();
        let signed = targets_signed(1, FAR, &entries(&r.name, r.n_targets), if specs.is_empty() { None } else { Some(&specs) });
        let b = Doc::signed_by(signed, &[rkey(w, i)]).bytes();
        role_bytes.push((r.name.clone(), b));
    }
    let top_specs: Vec<DelegSpec> = sc.top_delegates.iter().map(|d| spec_of(d)).collect();
    let tg = sign_threshold(
        targets_signed(1, FAR, &entries("top", sc.top_targets), if top_specs.is_empty() { None } else { Some(&top_specs) }),
        &RoleKeys::one(&keys::ed(w, 4)),
    );
    let tgb = tg.bytes();
    metas.push(("targets.json".into(), Meta::of(1, &tgb, sc.snap_pins_len, sc.snap_pins_hash)));
    for (name, b) in &role_bytes {
        // delegated roles: version (+ length); tough does not check their digests
        metas.push((format!("{}.json", published(sc, name)), Meta::of(1, b, sc.snap_pins_len, false)));
        role_pins.insert(name.clone(), if sc.snap_pins_len { Some(b.len() as u64) } else { None });
        sizes.insert(name.clone(), b.len());
        let file = quote_role_name(&published(sc, name));
        files.insert(if sc.consistent { format!("1.{file}.json") } else { format!("{file}.json") }, b.clone());
    }
    let sn = sign_threshold(snapshot_signed(1, FAR, &metas), &RoleKeys::one(&keys::ed(w, 3)));
    let snb = sn.bytes();
    let ts = sign_threshold(timestamp_signed(1, FAR, &Meta::of(1, &snb, sc.ts_pins_len, sc.ts_pins_hash)), &RoleKeys::one(&keys::ed(w, 2)));
    let tsb = ts.bytes();
    let shipped = root_bytes(sc, 1);
    let mut root_size = shipped.len();
    if let Some(n) = sc.newer_roots {
        for v in 2..=(1 + n) {
            let b = root_bytes(sc, v);
            root_size = root_size.max(b.len());
            files.insert(format!("{v}.root.json"), b);
        }
    } else {
        root_size = root_bytes(sc, 1000).len().max(root_size);
    }
    sizes.insert("timestamp".into(), tsb.len());
    sizes.insert("snapshot".into(), snb.len());
    sizes.insert("targets".into(), tgb.len());
    files.insert("timestamp.json".into(), tsb);
    files.insert(if sc.consistent { "1.snapshot.json".into() } else { "snapshot.json".into() }, snb.clone());
    files.insert(if sc.consistent { "1.targets.json".into() } else { "targets.json".into() }, tgb.clone());
    Built {
        shipped,
        files,
        sizes,
        root_size,
        ts_pin: if sc.ts_pins_len { Some(snb.len() as u64) } else { None },
        tg_pin: if sc.snap_pins_len { Some(tgb.len() as u64) } else { None },
        role_pins,
        pairs,
        cyclic: is_cyclic(sc),
    }
}

fn lim_value(l: Lim, size: usize, default: u64) -> u64 {
    match l {
        Lim::Zero => 0,
        Lim::SizeMinus1 => (size as u64).saturating_sub(1),
        Lim::Exact => size as u64,
        Lim::Default => default,
        Lim::Huge => u64::MAX / 2,
    }
}

/// which kind of file a metadata request is for
fn kind_of(rel: &str) -> String {
    let stem = rel.strip_suffix(".json").unwrap_or(rel);
    if stem.ends_with(".root") || stem == "root" {
        return "root".into();
    }
    // strip a leading "<digits>." version prefix
    let stem = match stem.split_once('.') {
        Some((a, b)) if !a.is_empty() && a.bytes().all(|c| c.is_ascii_digit()) => b,
        _ => stem,
    };
    let decoded = crate::transport::pct_decode(stem);
    decoded.strip_suffix(ODD_SUFFIX).unwrap_or(&decoded).to_string()
}

fn graph(r: &mut Rng) -> (Vec<String>, Vec<RoleDef>) {
    let role = |name: &str, delegates: &[&str], n: usize| RoleDef { name: name.into(), delegates: delegates.iter().map(|s| (*s).to_string()).collect(), n_targets: n };
    match r.below(8) {
        0 => (vec![], vec![]),
        1 => (vec!["a".into()], vec![role("a", &["a"], 1)]),
        2 => (vec!["a".into()], vec![role("a", &["b"], 1), role("b", &["a"], 1)]),
        3 => (vec!["a".into(), "b".into()], vec![role("a", &["d"], 1), role("b", &["d"], 0), role("d", &[], 2)]),
        4 => {
            // a delegated role much larger than targets.json
            let n = 10 + r.usize_below(40);
            (vec!["big".into()], vec![role("big", &[], n)])
        }
        5 => (vec!["a".into()], vec![role("a", &["b"], 0), role("b", &["c"], 1), role("c", &["a"], 0)]),
        _ => {
            // random tree of depth <= 3, fan-out <= 3
            let mut roles: Vec<RoleDef> = Vec::new();
            let mut top = Vec::new();
            let mut counter = 0;
            fn grow(r: &mut Rng, depth: usize, roles: &mut Vec<RoleDef>, counter: &mut usize) -> String {
                let name = format!("r{}", *counter);
                *counter += 1;
                let idx = roles.len();
                roles.push(RoleDef { name: name.clone(), delegates: vec![], n_targets: r.usize_below(4) });
                if depth < 3 && roles.len() < 6 {
                    for _ in 0..r.usize_below(3) {
                        if roles.len() >= 6 {
                            break;
                        }
                        let c = grow(r, depth + 1, roles, counter);
                        roles[idx].delegates.push(c);
                    }
                }
                name
            }
            for _ in 0..1 + r.usize_below(2) {
                if roles.len() >= 6 {
                    break;
                }
                let n = grow(r, 1, &mut roles, &mut counter);
                top.push(n);
            }
            (top, roles)
        }
    }
}

impl Sc {
    /// a quarter of the scenarios get a shipped root above version 1 and/or an earlier cycle on
    /// the same datastore
    fn with_history(mut self, r: &mut Rng) -> Sc {
        let newest = 1 + self.newer_roots.unwrap_or(12);
        if r.chance(1, 4) {
            self.shipped = 1 + r.below(newest.min(6));
        }
        if r.chance(1, 4) {
            let then_newest = 1 + r.below(newest.min(8));
            let then_shipped = 1 + r.below(then_newest.min(self.shipped));
            self.prior = Some((then_shipped, then_newest));
        }
        self
    }
}

impl Check for C09 {
    type Scenario = Sc;
    fn id(&self) -> &'static str {
        "C09"
    }
    fn rule(&self) -> String {
        "per-role limits from {0, size-1, exact size, default, huge}, max_root_updates from {0,1,3,10}, 0..12 newer valid roots or an endless root generator, timestamp/snapshot pinning lengths and digests independently or not, delegation graphs whose role names are plain or need escaping in file names (space, non-ASCII, slash) (none, tree depth<=3, self-delegation, mutual delegation, 3-cycle, diamond, one delegated role with 10..50 targets i.e. larger than targets.json), and for any subset of file kinds a hostile stream (whitespace padding or endless data); non-trivial = a hostile stream was pulled, a limit below the file size applied, a delegation cycle was entered or a delegated role larger than targets.json was fetched; distinct = distinct canonical trace".into()
    }
    fn assumptions(&self) -> Vec<String> {
        vec![
            "bytes pulled are counted by the transport per request, including the chunk that crossed the bound".into(),
            "a repository that publishes exactly max_root_updates newer roots is not judged (the statement bounds requests, it does not say what happens at the bound)".into(),
            "SimTransport answers with an error once the request budget (bound + 5) is exhausted, so a non-terminating client cannot hang the simulator".into(),
        ]
    }
    fn components(&self) -> Value {
        json!({"real": ["tough load (all steps incl. load_delegations recursion)", "max_size_adapter", "Limits handling"], "stub": ["transport (SimTransport with request budget)", "foreign publisher incl. cyclic delegation graphs"]})
    }
    fn runs(&self, tier: Tier) -> u64 {
        match tier {
            Tier::Quick => 15_000,
            Tier::Thorough => 500_000,
        }
    }
    fn required_faults(&self, _t: Tier) -> Vec<&'static str> {
        vec!["padded_stream", "endless_stream", "limit_below_size", "endless_root_chain", "delegation_cycle_entered", "delegated_role_larger_than_targets", "earlier_cycle_left_trust_state"]
    }
    fn required_probes(&self, _t: Tier) -> Vec<&'static str> {
        vec!["stopped_at_bound", "root_updates_capped", "legitimate_at_exact_bound_accepted"]
    }
    fn generate(&self, seed: u64, _tier: Tier) -> Sc {
        let mut r = Rng::new(seed);
        let (top, roles) = graph(&mut r);
        let lim = |r: &mut Rng| if r.chance(1, 2) { Lim::Default } else { *r.pick(&LIMS) };
        let newer_roots = match r.below(6) {
            0 => None,
            1 | 2 => Some(0),
            _ => Some(r.below(13)),
        };
        let mut hostile = Vec::new();
        if r.chance(1, 3) {
            let mut kinds: Vec<String> = vec!["root".into(), "timestamp".into(), "snapshot".into(), "targets".into()];
            kinds.extend(roles.iter().map(|x| x.name.clone()));
            for _ in 0..1 + r.usize_below(2) {
                let k = r.pick(&kinds).clone();
                let h = if r.chance(1, 2) {
                    Hostile::Pad(*r.pick(&[1usize, 2, 100, 5000, 2_000_000]))
                } else {
                    Hostile::Endless(*r.pick(&[64usize, 4096, 65536]))
                };
                if !hostile.iter().any(|(kk, _): &(String, Hostile)| *kk == k) {
                    hostile.push((k, h));
                }
            }
        }
        Sc {
            world: r.below(1_000_003),
            consistent: r.chance(1, 2),
            lim_root: lim(&mut r),
            lim_ts: lim(&mut r),
            lim_snap: lim(&mut r),
            lim_tg: lim(&mut r),
            max_root_updates: *r.pick(&[0u64, 1, 3, 10, 10]),
            newer_roots,
            ts_pins_len: r.chance(1, 2),
            snap_pins_len: r.chance(2, 3),
            ts_pins_hash: r.chance(1, 2),
            snap_pins_hash: r.chance(1, 2),
            odd_names: r.chance(1, 3),
            top_delegates: top,
            top_targets: r.usize_below(4),
            roles,
            hostile,
            shipped: 1,
            prior: None,
        }
        .with_history(&mut r)
    }
    fn shrink(&self, sc: &Sc) -> Vec<Sc> {
        let mut v = Vec::new();
        for i in 0..sc.hostile.len() {
            let mut h = sc.hostile.clone();
            h.remove(i);
            v.push(Sc { hostile: h, ..sc.clone() });
        }
        if sc.newer_roots != Some(0) {
            v.push(Sc { newer_roots: Some(0), ..sc.clone() });
        }
        if sc.consistent {
            v.push(Sc { consistent: false, ..sc.clone() });
        }
        for (get, set) in [
            (sc.lim_root, 0usize),
            (sc.lim_ts, 1),
            (sc.lim_snap, 2),
            (sc.lim_tg, 3),
        ] {
            if get != Lim::Default {
                let mut s = sc.clone();
                match set {
                    0 => s.lim_root = Lim::Default,
                    1 => s.lim_ts = Lim::Default,
                    2 => s.lim_snap = Lim::Default,
                    _ => s.lim_tg = Lim::Default,
                }
                v.push(s);
            }
        }
        if sc.max_root_updates != 10 {
            v.push(Sc { max_root_updates: 10, ..sc.clone() });
        }
        if sc.prior.is_some() {
            v.push(Sc { prior: None, ..sc.clone() });
        }
        if sc.odd_names {
            v.push(Sc { odd_names: false, ..sc.clone() });
        }
        if sc.shipped != 1 && sc.prior.map_or(true, |p| p.0 == 1) {
            v.push(Sc { shipped: 1, ..sc.clone() });
        }
        if sc.top_targets > 0 {
            v.push(Sc { top_targets: 0, ..sc.clone() });
        }
        if sc.ts_pins_len {
            v.push(Sc { ts_pins_len: false, ..sc.clone() });
        }
        // drop leaf roles that nobody needs
        for i in 0..sc.roles.len() {
            if sc.roles[i].delegates.is_empty() {
                let name = sc.roles[i].name.clone();
                let mut s = sc.clone();
                s.roles.remove(i);
                s.top_delegates.retain(|d| *d != name);
                for r in &mut s.roles {
                    r.delegates.retain(|d| *d != name);
                }
                s.hostile.retain(|(k, _)| *k != name);
                v.push(s);
            } else if sc.roles[i].n_targets > 1 {
                let mut s = sc.clone();
                s.roles[i].n_targets = 1;
                v.push(s);
            }
        }
        for i in 0..sc.roles.len() {
            if sc.roles[i].n_targets > 12 {
                let mut s = sc.clone();
                s.roles[i].n_targets = sc.roles[i].n_targets / 2;
                v.push(s);
            }
        }
        v
    }
    fn sample(&self, sc: &Sc) -> Value {
        serde_json::to_value(sc).unwrap_or(Value::Null)
    }
    fn run(&self, sc: &Sc) -> Outcome {
        let mut o = Outcome::new();
        for d in sc.top_delegates.iter().chain(sc.roles.iter().flat_map(|r| r.delegates.iter())) {
            if !sc.roles.iter().any(|r| r.name == *d) {
                o.harness("dangling delegation in scenario");
                return o;
            }
        }
        let b = build(sc);
        let d = Limits::default();
        let limits = Limits {
            max_root_size: lim_value(sc.lim_root, b.root_size, d.max_root_size),
            max_timestamp_size: lim_value(sc.lim_ts, b.sizes["timestamp"], d.max_timestamp_size),
            max_snapshot_size: lim_value(sc.lim_snap, b.sizes["snapshot"], d.max_snapshot_size),
            max_targets_size: lim_value(sc.lim_tg, b.sizes["targets"], d.max_targets_size),
            max_root_updates: sc.max_root_updates,
        };
        // the bound that applies to each kind of file
        let bound_of = |kind: &str| -> u64 {
            match kind {
                "root" => limits.max_root_size,
                "timestamp" => limits.max_timestamp_size,
                "snapshot" => b.ts_pin.unwrap_or(limits.max_snapshot_size),
                "targets" => b.tg_pin.unwrap_or(limits.max_targets_size),
                role => b.role_pins.get(role).copied().flatten().unwrap_or(limits.max_targets_size),
            }
        };
        let request_bound = sc.max_root_updates as usize + 3 + b.pairs;
        let files = b.files.clone();
        let hostile = sc.hostile.clone();
        let endless_roots = sc.newer_roots.is_none();
        let sc2 = sc.clone();
        let transport = SimTransport::with_budget(
            move |r| {
                if r.base != Base::Metadata {
                    return Resp::not_found();
                }
                let kind = kind_of(&r.rel);
                let genuine: Option<Vec<u8>> = if kind == "root" && endless_roots {
                    r.rel.strip_suffix(".root.json").and_then(|v| v.parse::<u64>().ok()).map(|v| root_bytes(&sc2, v))
                } else {
                    files.get(&r.rel).cloned()
                };
                let Some(g) = genuine else { return Resp::not_found() };
                match hostile.iter().find(|(k, _)| *k == kind) {
                    None => Resp::whole(&g),
                    Some((_, Hostile::Pad(n))) => {
                        let mut steps = vec![Step::Data(g)];
                        let mut left = *n;
                        while left > 0 {
                            let c = left.min(4096);
                            steps.push(Step::Data(vec![b' '; c]));
                            left -= c;
                        }
                        Resp::Body(steps)
                    }
                    Some((_, Hostile::Endless(c))) => {
                        let mut g2 = g;
                        g2.pop();
                        Resp::Body(vec![Step::Data(g2), Step::Endless(*c)])
                    }
                }
            },
            request_bound + 5,
        );
        o.ev(format!(
            "cfg consistent={} limits=({:?},{:?},{:?},{:?}) mru={} newer_roots={:?} pins=({},{}) pin_hashes=({},{}) odd_names={} top={:?}/{} roles={:?} hostile={:?} shipped={} prior={:?}",
            sc.consistent, sc.lim_root, sc.lim_ts, sc.lim_snap, sc.lim_tg, sc.max_root_updates, sc.newer_roots, sc.ts_pins_len, sc.snap_pins_len, sc.ts_pins_hash, sc.snap_pins_hash, sc.odd_names,
            sc.top_delegates, sc.top_targets, sc.roles.iter().map(|r| (r.name.as_str(), r.delegates.clone(), r.n_targets)).collect::<Vec<_>>(), sc.hostile, sc.shipped, sc.prior
        ));
        let t2 = transport.clone();
        let newest = sc.newer_roots.map(|n| 1 + n);
        if sc.shipped == 0 || newest.is_some_and(|n| sc.shipped > n) || sc.prior.is_some_and(|(a, b2)| a == 0 || a > b2 || a > sc.shipped || newest.is_some_and(|n| b2 > n)) {
            o.harness("inconsistent history in scenario");
            return o;
        }
        let shipped = if sc.shipped == 1 { b.shipped.clone() } else { root_bytes(sc, sc.shipped) };
        let scratch = Scratch::new();
        let ds = scratch.dir("datastore");
        // ---- an earlier clean cycle on the same datastore (default limits, honest mirror)
        if let Some((then_shipped, then_newest)) = sc.prior {
            let files = b.files.clone();
            let sc3 = sc.clone();
            let prior_transport = SimTransport::new(move |r| {
                if r.base != Base::Metadata {
                    return Resp::not_found();
                }
                if let Some(v) = r.rel.strip_suffix(".root.json").and_then(|v| v.parse::<u64>().ok()) {
                    return if v <= then_newest { Resp::whole(&root_bytes(&sc3, v)) } else { Resp::not_found() };
                }
                files.get(&r.rel).map_or(Resp::not_found(), |x| Resp::whole(x))
            });
            let then_root = root_bytes(sc, then_shipped);
            let ds2 = ds.clone();
            let prior_ok = block_on(async move { world::load(&then_root, prior_transport, Some(&ds2), world::LoadOpts::default()).await.is_ok() });
            o.ev(format!("prior cycle shipped={then_shipped} newest={then_newest} ok={prior_ok}"));
            if !prior_ok && !b.cyclic {
                o.harness("the earlier clean cycle failed");
                return o;
            }
        }
        let ds3 = ds.clone();
        let res = block_on(async move {
            match world::load(&shipped, t2, Some(&ds3), world::LoadOpts { limits: Some(limits), enforcement: tough::ExpirationEnforcement::Safe }).await {
                Ok(repo) => Ok(repo.root().signed.version.get()),
                Err(e) => Err((classify(&e), variant(&e))),
            }
        });
        let log = transport.log();
        o.ev(format!(
            "load={:?} requests={} over_budget={} log={:?}",
            res.as_ref().map_err(|e| (e.0.name(), e.1.clone())),
            log.len(),
            transport.over_budget(),
            log.iter().map(|l| (kind_of(&l.rel), l.bytes_pulled)).collect::<Vec<_>>()
        ));

        // ---- safety: per-request byte bound
        let mut stopped_at_bound = false;
        for l in &log {
            let kind = kind_of(&l.rel);
            let bound = bound_of(&kind);
            let crossing: u64 = match sc.hostile.iter().find(|(k, _)| *k == kind) {
                Some((_, Hostile::Endless(c))) => (*c as u64).max(b.sizes.get(&kind).copied().unwrap_or(b.root_size) as u64),
                Some((_, Hostile::Pad(_))) => 4096.max(b.sizes.get(&kind).copied().unwrap_or(b.root_size) as u64),
                None => b.sizes.get(&kind).copied().unwrap_or(b.root_size) as u64,
            };
            if l.bytes_pulled as u64 > bound.saturating_add(crossing) {
                let class = if ["root", "timestamp", "snapshot", "targets"].contains(&kind.as_str()) { kind.clone() } else { "delegated-role".to_string() };
                o.violate(
                    format!("bytes-beyond-bound-pulled:{class}"),
                    format!("{} bytes pulled for {} whose applicable bound is {} (largest chunk {})", l.bytes_pulled, l.rel, bound, crossing),
                );
            }
            if l.bytes_pulled as u64 > bound && !l.ended {
                stopped_at_bound = true;
            }
        }
        if stopped_at_bound {
            o.probe("stopped_at_bound");
        }
        // accepted although a file was larger than its bound
        if res.is_ok() {
            for l in &log {
                let kind = kind_of(&l.rel);
                if l.ended && l.bytes_pulled as u64 > bound_of(&kind) {
                    let class = if ["root", "timestamp", "snapshot", "targets"].contains(&kind.as_str()) { kind.clone() } else { "delegated-role".to_string() };
                    o.violate(
                        format!("oversize-file-accepted:{class}"),
                        format!("{} ({} bytes) was accepted although its applicable bound is {}", l.rel, l.bytes_pulled, bound_of(&kind)),
                    );
                }
            }
        }
        // ---- safety: request counts and termination
        let root_reqs = log.iter().filter(|l| kind_of(&l.rel) == "root").count() as u64;
        if root_reqs > sc.max_root_updates {
            o.violate("too-many-root-requests", format!("{root_reqs} newer-root files requested, max_root_updates={}", sc.max_root_updates));
        }
        if root_reqs == sc.max_root_updates && (sc.newer_roots.is_none() || sc.newer_roots.is_some_and(|n| n >= sc.max_root_updates)) && sc.max_root_updates > 0 {
            o.probe("root_updates_capped");
        }
        if transport.over_budget() || log.len() > request_bound {
            o.violate(
                format!("request-bound-exceeded:{}", if b.cyclic { "delegation-cycle" } else { "acyclic" }),
                format!("{} requests; bound is max_root_updates({}) + 3 + {} delegations = {}", log.len(), sc.max_root_updates, b.pairs, request_bound),
            );
        }
        if transport.runaway() {
            // only a violation if the applicable bound is below the simulator's hard cap (12 MiB)
            let bounded = log.iter().filter(|l| l.endless).all(|l| bound_of(&kind_of(&l.rel)) < (11 << 20));
            if bounded {
                o.violate("endless-stream-not-cut", "the client kept pulling an endless stream past the simulator's hard cap");
            }
        }
        // ---- liveness: legitimate repository within its own bounds
        let size_ok = |kind: &str, size: usize| (size as u64) <= bound_of(kind);
        let legit = sc.hostile.is_empty()
            && !b.cyclic
            && sc.newer_roots.is_some_and(|n| (1 + n).saturating_sub(sc.shipped) < sc.max_root_updates)
            && size_ok("root", b.root_size)
            && size_ok("timestamp", b.sizes["timestamp"])
            && size_ok("snapshot", b.sizes["snapshot"])
            && size_ok("targets", b.sizes["targets"])
            && sc.roles.iter().all(|r| size_ok(&r.name, b.sizes[&r.name]));
        if legit {
            match &res {
                Ok(_) => {
                    if [sc.lim_root, sc.lim_ts, sc.lim_snap, sc.lim_tg].contains(&Lim::Exact) || sc.snap_pins_len || sc.ts_pins_len {
                        o.probe("legitimate_at_exact_bound_accepted");
                    }
                }
                Err((Class::Size, var)) => {
                    let bigger: Vec<&str> = sc.roles.iter().filter(|r| b.sizes[&r.name] > b.sizes["targets"]).map(|r| r.name.as_str()).collect();
                    o.violate(
                        format!("legitimate-file-refused-for-size:{}", if bigger.is_empty() { "other" } else { "delegated-role-larger-than-targets" }),
                        format!("every file is within its own bound, yet the cycle failed with {var}; roles larger than targets.json: {bigger:?}"),
                    );
                }
                Err((c, var)) => o.harness(format!("legitimate repository failed with {var} ({})", c.name())),
            }
        }
        // ---- fault accounting
        let mut fired = false;
        for l in &log {
            let kind = kind_of(&l.rel);
            if let Some((_, h)) = sc.hostile.iter().find(|(k, _)| *k == kind) {
                if l.steps_pulled > 1 || l.endless {
                    o.fault(match h {
                        Hostile::Pad(_) => "padded_stream",
                        Hostile::Endless(_) => "endless_stream",
                    });
                    fired = true;
                }
            }
            let genuine = b.sizes.get(&kind).copied().unwrap_or(b.root_size) as u64;
            if bound_of(&kind) < genuine && l.steps_pulled > 0 {
                o.fault("limit_below_size");
                fired = true;
            }
            if sc.roles.iter().any(|r| r.name == kind) && b.sizes[&kind] > b.sizes["targets"] && l.steps_pulled > 0 {
                o.fault("delegated_role_larger_than_targets");
                fired = true;
            }
        }
        if sc.newer_roots.is_none() && root_reqs > 0 {
            o.fault("endless_root_chain");
            fired = true;
        }
        if b.cyclic && log.iter().any(|l| sc.roles.iter().any(|r| r.name == kind_of(&l.rel))) {
            o.fault("delegation_cycle_entered");
            fired = true;
        }
        if sc.prior.is_some() {
            o.fault("earlier_cycle_left_trust_state");
            fired = true;
        }
        if sc.shipped > 1 {
            o.probe("shipped_root_newer_than_first");
        }
        o.nontrivial = fired;
        o
    }
}
