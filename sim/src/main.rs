//! simworld — deterministic simulation with fault injection for awslabs/tough (see DESIGN.md).

mod c01;
mod c02;
mod c03;
mod c04;
mod c05;
mod c06;
mod c07;
mod c08;
mod c09;
mod c10;
mod c12;
mod c14;
mod c16;
mod c17;
mod c18;
mod c19;
mod classify;
mod edworld;
mod engine;
mod json;
mod keys;
mod procsupport;
mod prng;
mod publisher;
mod transport;
mod world;

use engine::{Check, Tier};
use std::path::Path;

fn dispatch<C: Check>(c: &C, mode: &str, args: &[String]) -> i32 {
    match mode {
        "quick" => engine::run_batch(c, Tier::Quick).exit,
        "thorough" => engine::run_batch(c, Tier::Thorough).exit,
        "replay" => engine::replay(c, Path::new(&args[0])),
        "one" => engine::one(c, args.first().and_then(|s| s.parse().ok()).unwrap_or(0), Tier::Quick),
        "selftest" => {
            let n = args.first().and_then(|s| s.parse().ok()).unwrap_or(300);
            engine::selftest(c, n, Tier::Quick)
        }
        _ => {
            eprintln!("unknown mode {mode}");
            2
        }
    }
}

fn main() {
    std::env::remove_var("RUST_BACKTRACE");
    std::env::remove_var("RUST_LIB_BACKTRACE");
    let args: Vec<String> = std::env::args().collect();
    if args.len() < 2 {
        eprintln!("usage: simworld <quick|thorough|replay|selftest> <Cxx> [args] | genkeys");
        std::process::exit(2);
    }
    let mode = args[1].as_str();
    if mode == "client" {
        std::process::exit(procsupport::client(&args[2..]));
    }
    if mode == "mkrepo" {
        std::process::exit(procsupport::mkrepo(&args[2..]));
    }
    if mode == "dumpkeys" {
        std::process::exit(procsupport::dumpkeys(&args[2..]));
    }
    if mode == "verifyroot" {
        std::process::exit(procsupport::verifyroot(&args[2..]));
    }
    if mode == "genkeys" {
        println!("{}", keys::generate_pool(6, 6));
        return;
    }
    let id = args.get(2).map(String::as_str).unwrap_or("");
    let rest: Vec<String> = args.iter().skip(3).cloned().collect();
    let code = match id {
        "C01" => dispatch(&c01::C01, mode, &rest),
        "C02" => dispatch(&c02::C02, mode, &rest),
        "C03" => dispatch(&c03::C03, mode, &rest),
        "C04" => dispatch(&c04::C04, mode, &rest),
        "C05" => dispatch(&c05::C05, mode, &rest),
        "C06" => dispatch(&c06::C06, mode, &rest),
        "C07" => dispatch(&c07::C07, mode, &rest),
        "C08" => dispatch(&c08::C08, mode, &rest),
        "C09" => dispatch(&c09::C09, mode, &rest),
        "C10" => dispatch(&c10::C10, mode, &rest),
        "C12" => dispatch(&c12::C12, mode, &rest),
        "C14" => dispatch(&c14::C14, mode, &rest),
        "C16" => dispatch(&c16::C16, mode, &rest),
        "C17" => dispatch(&c17::C17, mode, &rest),
        "C18" => dispatch(&c18::C18, mode, &rest),
        "C19" => dispatch(&c19::C19, mode, &rest),
        _ => {
            eprintln!("unknown property {id}");
            2
        }
    };
    std::process::exit(code);
}
