//! C05 — each role matches what the role above it pinned (no mix-and-match).

use crate::classify::{classify, variant, Class};
use crate::engine::{block_on, Check, Outcome, Scratch, Tier};
use crate::json::{self, Style, J};
use crate::keys;
use crate::prng::Rng;
use crate::publisher::*;
use crate::transport::{Base, Resp, SimTransport};
use crate::world;
use serde::{Deserialize, Serialize};
use serde_json::{json, Value};

#[derive(Clone, Copy, Debug, Serialize, Deserialize, PartialEq, Eq)]
pub enum Variant {
    Compact,
    Pretty,
    Reversed,
    /// compact plus an unrelated signature entry appended
    JunkSig,
}

const VARIANTS: [Variant; 4] = [Variant::Compact, Variant::Pretty, Variant::Reversed, Variant::JunkSig];

#[derive(Clone, Copy, Debug, Serialize, Deserialize)]
pub struct Ep {
    pub ts_v: u64,
    pub snap_v: u64,
    pub tg_v: u64,
    pub d_v: u64,
}

#[derive(Clone, Debug, Serialize, Deserialize)]
pub struct Sc {
    pub world: u64,
    pub consistent: bool,
    pub epochs: Vec<Ep>,
    /// timestamp pins (length, sha256) of the snapshot; snapshot pins (length, sha256) of targets
    pub ts_pins: (bool, bool),
    pub snap_pins: (bool, bool),
    pub has_delegated: bool,
    pub list_delegated: bool,
    /// the byte variant whose length/digest is pinned, for snapshot and for targets
    pub pin_variant: (Variant, Variant),
    /// what the adversary serves for timestamp, snapshot, targets, delegated role: (epoch, variant)
    pub serve: [(usize, Variant); 4],
    /// run an earlier honest cycle first, on the datastore the judged cycle then uses: the newest
    /// state none of whose versions exceeds what the judged cycle is served (so that rollback
    /// protection has nothing to object to); the stored files then have the same or lower
    /// versions as the served ones but possibly other bytes
    #[serde(default)]
    pub warm: bool,
}

pub struct C05;

fn render(d: &Doc, v: Variant, world: u64) -> Vec<u8> {
    match v {
        Variant::Compact => d.bytes_styled(Style::Compact),
        Variant::Pretty => d.bytes_styled(Style::Pretty),
        Variant::Reversed => d.bytes_styled(Style::Reversed),
        Variant::JunkSig => {
            let mut d2 = d.clone();
            d2.sigs.push(sign_with(&d.signed, &keys::ed(world, 999)));
            d2.bytes_styled(Style::Compact)
        }
    }
}

struct EpochDocs {
    ts: Doc,
    snap: Doc,
    tg: Doc,
    d1: Option<Doc>,
}

fn build_epoch(sc: &Sc, e: &Ep) -> EpochDocs {
    let w = sc.world;
    let kd = keys::ed(w, 10);
    let d1 = if sc.has_delegated {
        Some(Doc::signed_by(targets_signed(e.d_v, FAR, &[TargetEntry::of("d/x", format!("x{}", e.d_v).as_bytes())], None), &[kd.clone()]))
    } else {
        None
    };
    let delegs = [DelegSpec { name: "d1".into(), keys: RoleKeys::one(&kd), paths: Paths::Globs(vec!["d/*".into()]), terminating: false }];
    let tg = Doc::signed_by(
        targets_signed(e.tg_v, FAR, &[TargetEntry::of("t", format!("t{}", e.tg_v).as_bytes())], if sc.has_delegated { Some(&delegs) } else { None }),
        &[keys::ed(w, 4)],
    );
    let tgb = render(&tg, sc.pin_variant.1, w);
    let mut metas = vec![("targets.json".to_string(), Meta::of(e.tg_v, &tgb, sc.snap_pins.0, sc.snap_pins.1))];
    if let (Some(d), true) = (&d1, sc.list_delegated) {
        let db = render(d, Variant::Compact, w);
        metas.push(("d1.json".to_string(), Meta::of(e.d_v, &db, sc.snap_pins.0, sc.snap_pins.1)));
    }
    let snap = Doc::signed_by(snapshot_signed(e.snap_v, FAR, &metas), &[keys::ed(w, 3)]);
    let snb = render(&snap, sc.pin_variant.0, w);
    let ts = Doc::signed_by(timestamp_signed(e.ts_v, FAR, &Meta::of(e.snap_v, &snb, sc.ts_pins.0, sc.ts_pins.1)), &[keys::ed(w, 2)]);
    EpochDocs { ts, snap, tg, d1 }
}

struct Pin {
    version: u64,
    length: Option<u64>,
    sha256: Option<Vec<u8>>,
}

fn pin_of(doc: &Doc, name: &str) -> Option<Pin> {
    let m = doc.signed.get("meta")?.get(name)?;
    Some(Pin {
        version: m.get("version")?.as_u64()?,
        length: m.get("length").and_then(J::as_u64),
        sha256: m.get("hashes").and_then(|h| h.get("sha256")).and_then(J::as_str).and_then(|s| hex::decode(s).ok()),
    })
}

impl Check for C05 {
    type Scenario = Sc;
    fn id(&self) -> &'static str {
        "C05"
    }
    fn rule(&self) -> String {
        "1..3 repository states with role versions 1..3; pins in timestamp and snapshot: version only / +length / +sha256 / both; four byte variants of each signed document (compact, pretty, member order reversed, junk signature appended); delegated role present/absent, listed/omitted in snapshot; consistent snapshots on/off; in a third of the runs the datastore comes from an earlier honest cycle of a state whose versions do not exceed the served ones (same or lower versions, possibly other bytes); the adversary serves each of timestamp, snapshot, targets, delegated role from any state in any variant; non-trivial = at least one served file comes from another state or variant than the one pinned and the client fetched it; distinct = distinct canonical trace".into()
    }
    fn assumptions(&self) -> Vec<String> {
        vec!["every served file is individually valid and correctly signed; the oracle compares the bytes actually served with the pins of the documents actually served".into()]
    }
    fn components(&self) -> Value {
        json!({"real": ["tough load (version / digest / length checks, delegated role listing)", "fetch_sha256 / fetch_max_size adapters"], "stub": ["transport (SimTransport)", "foreign publisher with chosen byte formatting"]})
    }
    fn runs(&self, tier: Tier) -> u64 {
        match tier {
            Tier::Quick => 20_000,
            Tier::Thorough => 1_000_000,
        }
    }
    fn required_faults(&self, _t: Tier) -> Vec<&'static str> {
        vec!["snapshot_from_other_state", "targets_from_other_state", "delegated_from_other_state", "timestamp_from_other_state", "snapshot_other_byte_variant", "targets_other_byte_variant", "delegated_role_unlisted"]
    }
    fn required_probes(&self, _t: Tier) -> Vec<&'static str> {
        vec!["consistent_serving_accepted", "mismatch_refused", "benign_variant_accepted", "warm_datastore_from_earlier_cycle"]
    }
    fn generate(&self, seed: u64, _tier: Tier) -> Sc {
        let mut r = Rng::new(seed);
        let n = 1 + r.usize_below(3);
        let epochs: Vec<Ep> = (0..n).map(|_| Ep { ts_v: 1 + r.below(3), snap_v: 1 + r.below(3), tg_v: 1 + r.below(3), d_v: 1 + r.below(3) }).collect();
        let pins = |r: &mut Rng| (r.chance(1, 2), r.chance(1, 2));
        let pv = (*r.pick(&VARIANTS), *r.pick(&VARIANTS));
        let honest = r.chance(1, 5);
        let base = r.usize_below(n);
        let mut serve = [(base, Variant::Compact); 4];
        for (i, s) in serve.iter_mut().enumerate() {
            let var_pinned = match i {
                1 => pv.0,
                2 => pv.1,
                _ => Variant::Compact,
            };
            if honest {
                *s = (base, var_pinned);
            } else {
                *s = (if r.chance(1, 2) { base } else { r.usize_below(n) }, if r.chance(1, 2) { var_pinned } else { *r.pick(&VARIANTS) });
            }
        }
        let has_delegated = r.chance(2, 3);
        Sc {
            world: r.below(1_000_003),
            consistent: r.chance(1, 2),
            epochs,
            ts_pins: pins(&mut r),
            snap_pins: pins(&mut r),
            has_delegated,
            list_delegated: !has_delegated || r.chance(5, 6),
            pin_variant: pv,
            serve,
            warm: r.chance(1, 3),
        }
    }
    fn shrink(&self, sc: &Sc) -> Vec<Sc> {
        let mut v = Vec::new();
        if sc.consistent {
            v.push(Sc { consistent: false, ..sc.clone() });
        }
        if sc.has_delegated {
            v.push(Sc { has_delegated: false, list_delegated: true, ..sc.clone() });
        }
        if sc.warm {
            v.push(Sc { warm: false, ..sc.clone() });
        }
        for i in 0..4 {
            let pinned = match i {
                1 => sc.pin_variant.0,
                2 => sc.pin_variant.1,
                _ => Variant::Compact,
            };
            if sc.serve[i].1 != pinned {
                let mut s = sc.serve;
                s[i].1 = pinned;
                v.push(Sc { serve: s, ..sc.clone() });
            }
            if sc.serve[i].0 != sc.serve[0].0 {
                let mut s = sc.serve;
                s[i].0 = sc.serve[0].0;
                v.push(Sc { serve: s, ..sc.clone() });
            }
        }
        if sc.pin_variant != (Variant::Compact, Variant::Compact) {
            v.push(Sc { pin_variant: (Variant::Compact, Variant::Compact), ..sc.clone() });
        }
        v
    }
    fn run(&self, sc: &Sc) -> Outcome {
        let mut o = Outcome::new();
        if sc.epochs.is_empty() || sc.serve.iter().any(|s| s.0 >= sc.epochs.len()) {
            o.harness("degenerate");
            return o;
        }
        let w = sc.world;
        let docs: Vec<EpochDocs> = sc.epochs.iter().map(|e| build_epoch(sc, e)).collect();
        let mut spec = world::RepoSpec::basic(w, sc.consistent);
        spec.root.consistent_snapshot = sc.consistent;
        let root = Doc::signed_by(spec.root.signed(), &[keys::ed(w, 1)]);
        let shipped = root.bytes();
        let served_ts = render(&docs[sc.serve[0].0].ts, sc.serve[0].1, w);
        let served_snap = render(&docs[sc.serve[1].0].snap, sc.serve[1].1, w);
        let served_tg = render(&docs[sc.serve[2].0].tg, sc.serve[2].1, w);
        let served_d1 = docs[sc.serve[3].0].d1.as_ref().map(|d| render(d, sc.serve[3].1, w));
        let (b_ts, b_snap, b_tg, b_d1) = (served_ts.clone(), served_snap.clone(), served_tg.clone(), served_d1.clone());
        let transport = SimTransport::new(move |r| {
            if r.base != Base::Metadata {
                return Resp::not_found();
            }
            if r.rel.ends_with("root.json") {
                return Resp::not_found();
            }
            if r.rel == "timestamp.json" {
                Resp::whole(&b_ts)
            } else if r.rel.ends_with("snapshot.json") {
                Resp::whole(&b_snap)
            } else if r.rel.ends_with("targets.json") {
                Resp::whole(&b_tg)
            } else if r.rel.ends_with("d1.json") {
                b_d1.as_ref().map_or(Resp::not_found(), |b| Resp::whole(b))
            } else {
                Resp::not_found()
            }
        });
        o.ev(format!(
            "cfg consistent={} epochs={:?} ts_pins={:?} snap_pins={:?} deleg={}/{} pin_variant={:?} serve={:?}",
            sc.consistent, sc.epochs, sc.ts_pins, sc.snap_pins, sc.has_delegated, sc.list_delegated, sc.pin_variant, sc.serve
        ));
        // ---- an earlier honest cycle on the same datastore
        let scratch = Scratch::new();
        let ds = scratch.dir("datastore");
        let mut warmed = false;
        if sc.warm && (sc.list_delegated || !sc.has_delegated) {
            let served = [&sc.epochs[sc.serve[0].0], &sc.epochs[sc.serve[1].0], &sc.epochs[sc.serve[2].0], &sc.epochs[sc.serve[3].0]];
            let fits = |e: &Ep| e.ts_v <= served[0].ts_v && e.snap_v <= served[1].snap_v && e.tg_v <= served[1].tg_v && e.tg_v <= served[2].tg_v && e.d_v <= served[1].d_v && e.d_v <= served[3].d_v;
            if let Some(pi) = (0..sc.epochs.len()).rev().find(|i| fits(&sc.epochs[*i])) {
                let d = &docs[pi];
                let (p_ts, p_snap, p_tg) = (render(&d.ts, Variant::Compact, w), render(&d.snap, sc.pin_variant.0, w), render(&d.tg, sc.pin_variant.1, w));
                let p_d1 = d.d1.as_ref().map(|x| render(x, Variant::Compact, w));
                let t_then = SimTransport::new(move |r| {
                    if r.base != Base::Metadata || r.rel.ends_with("root.json") {
                        return Resp::not_found();
                    }
                    if r.rel == "timestamp.json" {
                        Resp::whole(&p_ts)
                    } else if r.rel.ends_with("snapshot.json") {
                        Resp::whole(&p_snap)
                    } else if r.rel.ends_with("targets.json") {
                        Resp::whole(&p_tg)
                    } else if r.rel.ends_with("d1.json") {
                        p_d1.as_ref().map_or(Resp::not_found(), |b| Resp::whole(b))
                    } else {
                        Resp::not_found()
                    }
                });
                let (sb, ds2) = (shipped.clone(), ds.clone());
                let then = block_on(async move { world::load(&sb, t_then, Some(&ds2), world::LoadOpts::default()).await.map(|_| ()).map_err(|e| variant(&e)) });
                o.ev(format!("earlier honest cycle of state {pi}: {then:?}"));
                match then {
                    Ok(()) => warmed = true,
                    Err(e) => {
                        o.violate("matching-files-rejected", format!("an honest cycle serving state {pi} exactly as pinned failed with {e}"));
                        return o;
                    }
                }
            }
        }
        if warmed {
            o.probe("warm_datastore_from_earlier_cycle");
        }
        let t2 = transport.clone();
        let ds3 = ds.clone();
        let res = block_on(async move {
            match world::load(&shipped, t2, Some(&ds3), world::LoadOpts::default()).await {
                Ok(repo) => Ok((
                    repo.timestamp().signed.version.get(),
                    repo.snapshot().signed.version.get(),
                    repo.targets().signed.version.get(),
                    repo.delegated_role("d1").and_then(|r| r.targets.as_ref()).map(|t| t.signed.version.get()),
                )),
                Err(e) => Err((classify(&e), variant(&e))),
            }
        });
        let log = transport.log();
        o.ev(format!(
            "load={:?} requests={:?}",
            res.as_ref().map_err(|e| (e.0.name(), e.1.clone())),
            log.iter().map(|l| l.rel.clone()).collect::<Vec<_>>()
        ));

        // ---- ground truth from the documents actually served
        let ts_doc = &docs[sc.serve[0].0].ts;
        let snap_doc = &docs[sc.serve[1].0].snap;
        let tg_doc = &docs[sc.serve[2].0].tg;
        let d1_doc = docs[sc.serve[3].0].d1.as_ref();
        let snap_pin = pin_of(ts_doc, "snapshot.json").expect("timestamp pins snapshot");
        let tg_pin = pin_of(snap_doc, "targets.json").expect("snapshot pins targets");
        let d1_pin = pin_of(snap_doc, "d1.json");
        let mut mismatches: Vec<String> = Vec::new();
        let check_pin = |what: &str, pin: &Pin, doc: &Doc, bytes: &[u8], out: &mut Vec<String>| {
            if doc.version() != pin.version {
                out.push(format!("{what}-version-mismatch"));
            }
            if let Some(h) = &pin.sha256 {
                if &json::sha256(bytes) != h {
                    out.push(format!("{what}-digest-mismatch"));
                }
            }
            if let Some(l) = pin.length {
                if bytes.len() as u64 > l {
                    out.push(format!("{what}-overlength"));
                }
            }
        };
        check_pin("snapshot", &snap_pin, snap_doc, &served_snap, &mut mismatches);
        check_pin("targets", &tg_pin, tg_doc, &served_tg, &mut mismatches);
        // a delegated role longer than the length its snapshot entry lists: C05 does not judge it
        // (the statement pins only its version); refusing it is C09's bound, so no liveness claim
        let mut delegated_overlength = false;
        if sc.has_delegated {
            match (&d1_pin, d1_doc) {
                (None, _) => mismatches.push("delegated-role-unlisted".into()),
                (Some(p), Some(d)) => {
                    if d.version() != p.version {
                        mismatches.push("delegated-version-mismatch".into());
                    }
                    if let (Some(l), Some(b)) = (p.length, &served_d1) {
                        delegated_overlength = b.len() as u64 > l;
                    }
                }
                _ => {}
            }
        }
        // the delegations of the *served* targets decide whether d1 is loaded at all
        o.ev(format!("truth mismatches={mismatches:?}"));

        match &res {
            Ok((tsv, snv, tgv, d1v)) => {
                if let Some(m) = mismatches.first() {
                    o.violate(format!("{m}-accepted"), format!("cycle succeeded although: {mismatches:?} (served ts v{tsv}, snapshot v{snv}, targets v{tgv}, d1 {d1v:?})"));
                } else if sc.serve.iter().any(|s| s.0 != sc.serve[0].0) || sc.serve[1].1 != sc.pin_variant.0 || sc.serve[2].1 != sc.pin_variant.1 {
                    o.probe("benign_variant_accepted");
                } else {
                    o.probe("consistent_serving_accepted");
                }
                if *snv != snap_pin.version || *tgv != tg_pin.version {
                    o.violate("trusted-version-differs-from-pin", "Repository reports versions other than the pinned ones");
                }
            }
            Err((class, var)) => {
                if mismatches.is_empty() && delegated_overlength && *class == Class::Size {
                    o.probe("delegated_overlength_refused");
                } else if mismatches.is_empty() {
                    match class {
                        Class::Pin => o.violate(
                            "matching-files-rejected",
                            format!("every served file matches the pins of the file above it, yet the cycle failed with {var}"),
                        ),
                        _ => o.harness(format!("clean serving failed with {var} ({})", class.name())),
                    }
                } else {
                    o.probe("mismatch_refused");
                }
            }
        }
        // consistent snapshots: the version-prefixed file named by the pinning document is fetched
        if sc.consistent {
            for l in &log {
                let expect = if l.rel.ends_with("snapshot.json") {
                    Some(format!("{}.snapshot.json", snap_pin.version))
                } else if l.rel.ends_with("targets.json") {
                    Some(format!("{}.targets.json", tg_pin.version))
                } else if l.rel.ends_with("d1.json") {
                    d1_pin.as_ref().map(|p| format!("{}.d1.json", p.version))
                } else {
                    None
                };
                if let Some(e) = expect {
                    if l.rel != e {
                        o.violate("wrong-versioned-file-requested", format!("requested {}, the pinning document names {e}", l.rel));
                    }
                }
            }
        } else {
            for l in &log {
                if !["timestamp.json", "snapshot.json", "targets.json", "d1.json", "2.root.json"].contains(&l.rel.as_str()) {
                    o.violate("unexpected-file-requested", format!("requested {}", l.rel));
                }
            }
        }
        // ---- fault accounting
        let fetched = |suffix: &str| log.iter().any(|l| l.rel.ends_with(suffix));
        let base = sc.serve[0].0;
        let mut fired = false;
        if sc.serve[1].0 != base && fetched("snapshot.json") {
            o.fault("snapshot_from_other_state");
            fired = true;
        }
        if sc.serve[2].0 != sc.serve[1].0 && fetched("targets.json") {
            o.fault("targets_from_other_state");
            fired = true;
        }
        if sc.has_delegated && sc.serve[3].0 != sc.serve[1].0 && fetched("d1.json") {
            o.fault("delegated_from_other_state");
            fired = true;
        }
        if sc.serve[0].0 != sc.serve[1].0 {
            o.fault("timestamp_from_other_state");
            fired = true;
        }
        if sc.serve[1].1 != sc.pin_variant.0 && fetched("snapshot.json") {
            o.fault("snapshot_other_byte_variant");
            fired = true;
        }
        if sc.serve[2].1 != sc.pin_variant.1 && fetched("targets.json") {
            o.fault("targets_other_byte_variant");
            fired = true;
        }
        if sc.has_delegated && !sc.list_delegated && fetched("targets.json") {
            o.fault("delegated_role_unlisted");
            fired = true;
        }
        o.nontrivial = fired;
        o
    }
}
