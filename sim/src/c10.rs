//! C10 — whatever the repository editor signs and writes, the client loads back unchanged;
//! incoming delegated metadata is incorporated only if it meets the delegating threshold and does
//! not lower the version.

use crate::classify::variant;
use crate::edworld::*;
use crate::engine::{block_on, drain_blocking, Check, Outcome, Scratch, Tier};
use crate::json::{self, J};
use crate::keys::{self, Alg};
use crate::prng::Rng;
use crate::publisher::*;
use crate::transport::SimTransport;
use crate::world;
use futures::StreamExt;
use serde::{Deserialize, Serialize};
use serde_json::{json, Value};
use tough::editor::targets::TargetsEditor;
use tough::editor::RepositoryEditor;
use tough::key_source::KeySource;
use tough::{Repository, TargetName};

#[derive(Clone, Copy, Debug, Serialize, Deserialize, PartialEq, Eq)]
pub enum SignWith {
    AllKeys,
    NoSnapshotKey,
    NoTimestampKey,
    NoTargetsKey,
}

#[derive(Clone, Copy, Debug, Serialize, Deserialize, PartialEq, Eq)]
pub enum Incoming {
    Genuine,
    UnderSigned,
    DuplicatedSignature,
    WrongKeys,
    Older,
    /// genuine, correctly signed and newer, but the holder lists a target outside the paths the
    /// role was delegated: the owner's editor may refuse it (at incorporation or at signing); if it
    /// signs and writes, the client must be able to load the result
    OutOfPath,
}

#[derive(Clone, Debug, Serialize, Deserialize)]
pub struct Cross {
    /// index into the depth-1 roles
    pub role: usize,
    pub incoming: Incoming,
    pub new_target: TargetM,
}

#[derive(Clone, Copy, Debug, Serialize, Deserialize, PartialEq, Eq)]
pub enum UpdKind {
    Replace,
    Remove,
    ReplaceThenRemove,
    RemoveThenReAdd,
}

/// A later editing session of the owner on the written repository (load -> from_repo -> edit an
/// existing role -> sign -> write), applied to targets that already exist in that role.
#[derive(Clone, Debug, Serialize, Deserialize)]
pub struct Update {
    /// None = the top-level targets role, Some(i) = depth-1 role i
    pub role: Option<usize>,
    /// (index into that role's targets, what happens to it)
    pub ops: Vec<(usize, UpdKind)>,
    /// the final sign() is given too few keys for the edited role (none of the targets keys for the
    /// top-level role; fewer than its threshold for a delegated role, which is then not signed
    /// separately beforehand): sign() has to refuse, or else everything staged must be in the result
    #[serde(default)]
    pub short_keys: bool,
}

#[derive(Clone, Debug, Serialize, Deserialize)]
pub struct Sc {
    pub world: u64,
    pub consistent: bool,
    pub top: RoleM,
    pub snap_v: u64,
    pub ts_v: u64,
    pub link: bool,
    pub sign_with: SignWith,
    pub cross: Option<Cross>,
    #[serde(default)]
    pub update: Option<Update>,
}

pub struct C10;

fn top_sources(sc: &Sc, which: SignWith) -> Vec<Box<dyn KeySource>> {
    let w = sc.world;
    let mut v: Vec<Box<dyn KeySource>> = Vec::new();
    if which != SignWith::NoTimestampKey {
        v.push(keys::ed(w, 2).source());
    }
    if which != SignWith::NoSnapshotKey {
        v.push(keys::ed(w, 3).source());
    }
    if which != SignWith::NoTargetsKey {
        v.extend(sc.top.sources(w));
    }
    v
}

async fn read_all(repo: &Repository, name: &str) -> Result<Option<Vec<u8>>, String> {
    let tn = TargetName::new(name).map_err(|e| format!("{e}"))?;
    match repo.read_target(&tn).await {
        Err(e) => Err(variant(&e)),
        Ok(None) => Ok(None),
        Ok(Some(mut s)) => {
            let mut got = Vec::new();
            while let Some(item) = s.next().await {
                match item {
                    Ok(b) => got.extend_from_slice(&b),
                    Err(e) => return Err(variant(&e)),
                }
            }
            Ok(Some(got))
        }
    }
}

impl Check for C10 {
    type Scenario = Sc;
    fn id(&self) -> &'static str {
        "C10"
    }
    fn rule(&self) -> String {
        "editing programs against tough's real editor: a delegation tree of depth <=3 (fan-out <=2..3) whose roles hold 0..40 targets (sizes 0..32 KiB, names with spaces, non-ASCII, sub-directories, so delegated files are smaller and larger than targets.json), 1..3 keys of mixed algorithms and thresholds 1..3 per role, noise operations (add-then-remove, clear, replace, version set twice), both consistent-snapshot settings, copy or symlink publication, final signing with adequate or inadequate key sets; a later owner session on the written repository (replace / remove / re-add existing targets), signed with adequate keys or with too few for the edited role, the replaced files republished into the same targets directory with the editor's walker; optionally the cross-party flow with incoming metadata that is genuine, under-signed, carrying a duplicated signature, signed by the wrong keys, older, or genuine but listing a target outside the delegated paths; non-trivial = sign and write succeeded for a tree with at least one delegated role, or a hostile incoming document was offered; distinct = distinct canonical trace".into()
    }
    fn assumptions(&self) -> Vec<String> {
        vec![
            "the written repository is reloaded through a directory-backed transport that behaves like a plain web server (target paths percent-decoded); reading names that need URL encoding over file:// is C19's known finding".into(),
            "target files in sub-directories are placed by the harness (the editor's copy/link walker matches on file names only); flat names go through the editor's copy_targets / link_targets".into(),
            "mostly a model-based operation-sequence check; its fault space (hostile incoming metadata, inadequate keys) is small".into(),
        ]
    }
    fn components(&self) -> Value {
        json!({"real": ["RepositoryEditor (add/remove/clear targets, delegate_role, change_delegated_targets, sign_targets_editor, sign, update_delegated_targets)", "TargetsEditor::from_repo / sign", "SignedRepository::write / copy_targets / link_targets", "SignedDelegatedTargets::write", "tough client load + read_target for the reload", "real directories"], "stub": ["transport for the reload (directory-backed SimTransport)", "clock (H1 fixed at T0)", "incoming hostile metadata (harness tampering of genuine editor output)"]})
    }
    fn runs(&self, tier: Tier) -> u64 {
        match tier {
            Tier::Quick => 3_000,
            Tier::Thorough => 30_000,
        }
    }
    fn required_faults(&self, _t: Tier) -> Vec<&'static str> {
        vec!["inadequate_key_set", "incoming_under_signed", "incoming_duplicated_signature", "incoming_wrong_keys", "incoming_older", "incoming_out_of_path", "update_signed_with_too_few_keys"]
    }
    fn required_probes(&self, _t: Tier) -> Vec<&'static str> {
        vec!["written_repository_loaded_and_matches_model", "owner_update_session_matches_model", "all_targets_read_back", "delegated_role_larger_than_targets_json", "genuine_incoming_incorporated", "hostile_incoming_refused", "out_of_path_incoming_refused", "inadequate_keys_refused", "inadequate_update_keys_refused"]
    }
    fn generate(&self, seed: u64, _tier: Tier) -> Sc {
        let mut r = Rng::new(seed);
        let mut counter = 0u64;
        // top-level targets role: 1..2 keys
        let nk = 1 + r.usize_below(2);
        let top_keys: Vec<(Alg, u64)> = (0..nk).map(|i| (Alg::Ed25519, 90 + i as u64)).collect();
        let mut children = Vec::new();
        for j in 0..r.usize_below(4) {
            children.push(gen_role(&mut r, format!("r{}", (b'a' + j as u8) as char), 1, &mut counter));
        }
        let top = RoleM {
            name: "targets".into(),
            keys: top_keys,
            thr: 1 + r.below(nk as u64),
            paths: vec![],
            version: 1 + r.below(9),
            expires_days: 1 + r.below(400) as i64,
            targets: gen_targets(&mut r, "top", 4, false),
            children,
            noise: r.next_u64(),
        };
        let cross = if !top.children.is_empty() && r.chance(1, 2) {
            let role = r.usize_below(top.children.len());
            let prefix = top.children[role].name.clone();
            Some(Cross {
                role,
                incoming: *r.pick(&[Incoming::Genuine, Incoming::Genuine, Incoming::UnderSigned, Incoming::DuplicatedSignature, Incoming::WrongKeys, Incoming::Older, Incoming::OutOfPath]),
                new_target: TargetM { name: format!("{prefix}-incoming.bin"), size: r.usize_below(500), seed: r.next_u64(), custom: 0 },
            })
        } else {
            None
        };
        let update = if r.chance(1, 2) {
            let role = if top.children.is_empty() || r.chance(1, 2) { None } else { Some(r.usize_below(top.children.len())) };
            let n = role.map_or(top.targets.len(), |i| top.children[i].targets.len());
            let mut ops = Vec::new();
            for i in 0..n {
                if r.chance(2, 3) {
                    ops.push((i, *r.pick(&[UpdKind::Replace, UpdKind::Remove, UpdKind::ReplaceThenRemove, UpdKind::RemoveThenReAdd])));
                }
            }
            Some(Update { role, ops, short_keys: r.chance(1, 4) })
        } else {
            None
        };
        Sc {
            world: r.below(1_000_003),
            consistent: r.chance(1, 2),
            update,
            top,
            snap_v: 1 + r.below(9),
            ts_v: 1 + r.below(9),
            link: r.chance(1, 2),
            sign_with: if r.chance(1, 8) { *r.pick(&[SignWith::NoSnapshotKey, SignWith::NoTimestampKey, SignWith::NoTargetsKey]) } else { SignWith::AllKeys },
            cross,
        }
    }
    fn shrink(&self, sc: &Sc) -> Vec<Sc> {
        let mut v = Vec::new();
        if sc.cross.is_some() {
            v.push(Sc { cross: None, ..sc.clone() });
        }
        if let Some(u) = &sc.update {
            v.push(Sc { update: None, ..sc.clone() });
            for i in 0..u.ops.len() {
                let mut u2 = u.clone();
                u2.ops.remove(i);
                v.push(Sc { update: Some(u2), ..sc.clone() });
            }
        }
        if sc.consistent {
            v.push(Sc { consistent: false, ..sc.clone() });
        }
        // drop subtrees / targets (indices of a pending update session would dangle)
        if sc.update.is_some() {
            return v;
        }
        for i in 0..sc.top.children.len() {
            if sc.cross.as_ref().is_some_and(|c| c.role == i) {
                continue;
            }
            let mut s = sc.clone();
            s.top.children.remove(i);
            if let Some(c) = s.cross.as_mut() {
                if c.role > i {
                    c.role -= 1;
                }
            }
            v.push(s);
        }
        for i in 0..sc.top.children.len() {
            if !sc.top.children[i].children.is_empty() {
                let mut s = sc.clone();
                s.top.children[i].children.clear();
                v.push(s);
            }
            if !sc.top.children[i].targets.is_empty() {
                let mut s = sc.clone();
                s.top.children[i].targets.clear();
                v.push(s);
                if sc.top.children[i].targets.len() > 1 {
                    let mut s = sc.clone();
                    s.top.children[i].targets.truncate(1);
                    v.push(s);
                }
            }
            if sc.top.children[i].keys.iter().any(|k| k.0 != Alg::Ed25519) {
                let mut s = sc.clone();
                for (j, k) in s.top.children[i].keys.iter_mut().enumerate() {
                    *k = (Alg::Ed25519, 50 + (i * 4 + j) as u64);
                }
                v.push(s);
            }
        }
        if !sc.top.targets.is_empty() {
            let mut s = sc.clone();
            s.top.targets.clear();
            v.push(s);
        }
        v
    }
    fn sample(&self, sc: &Sc) -> Value {
        let mut roles = Vec::new();
        sc.top.walk(&mut roles);
        json!({"consistent": sc.consistent, "link": sc.link, "sign_with": format!("{:?}", sc.sign_with), "cross": sc.cross.as_ref().map(|c| format!("{:?} into {}", c.incoming, sc.top.children.get(c.role).map_or("?", |r| r.name.as_str()))),
               "roles": roles.iter().map(|r| json!({"name": r.name, "keys": r.keys.len(), "thr": r.thr, "targets": r.targets.len(), "children": r.children.len(), "version": r.version})).collect::<Vec<_>>()})
    }
    fn run(&self, sc: &Sc) -> Outcome {
        let mut o = Outcome::new();
        let w = sc.world;
        let scratch = Scratch::new();
        let dir = scratch.dir("ed");
        let root_path = dir.join("root.json");
        let (_, root_doc) = editor_root(w, sc.consistent, &RoleKeys { keys: sc.top.key_objs(w), threshold: sc.top.thr });
        let shipped = root_doc.bytes();
        std::fs::write(&root_path, &shipped).unwrap();
        world::set_clock(Some(T0));
        let mut all_roles = Vec::new();
        sc.top.walk(&mut all_roles);
        o.ev(format!(
            "cfg consistent={} link={} sign_with={:?} snap_v={} ts_v={} cross={:?} roles={:?}",
            sc.consistent, sc.link, sc.sign_with, sc.snap_v, sc.ts_v, sc.cross.as_ref().map(|c| (c.role, c.incoming)),
            all_roles.iter().map(|r| (r.name.as_str(), r.keys.len(), r.thr, r.targets.len(), r.version)).collect::<Vec<_>>()
        ));
        if sc.sign_with != SignWith::AllKeys {
            o.fault("inadequate_key_set");
        }
        let meta_dir = dir.join("metadata");
        let targets_dir = dir.join("targets");
        let indir = dir.join("input");
        let mut stage = String::new();
        let all_targets: Vec<&TargetM> = all_roles.iter().flat_map(|r| r.targets.iter()).collect();

        // ================= phase 1: build, sign, write =================
        let built: Result<(), String> = block_on(async {
            let mut ed = RepositoryEditor::new(&root_path).await.map_err(|e| variant(&e))?;
            drive_editor(&mut ed, w, &sc.top, &mut stage).await?;
            stage = "sign".into();
            ed.snapshot_version(nz(sc.snap_v)).snapshot_expires(dt(T0 + 30 * DAY)).timestamp_version(nz(sc.ts_v)).timestamp_expires(dt(T0 + 2 * DAY));
            let signed = ed.sign(&top_sources(sc, sc.sign_with)).await.map_err(|e| variant(&e))?;
            stage = "write".into();
            signed.write(&meta_dir).await.map_err(|e| variant(&e))?;
            stage = "publish".into();
            publish_targets(&signed, sc.consistent, &all_targets, &indir, &targets_dir, sc.link).await?;
            Ok(())
        });
        drain_blocking();
        o.ev(format!("build -> {built:?} (stage {stage})"));
        if let Err(e) = &built {
            if sc.sign_with != SignWith::AllKeys && stage == "sign" {
                o.probe("inadequate_keys_refused");
            } else if sc.sign_with == SignWith::AllKeys {
                // the owner holds every key and the program is well-formed: the editor must accept it
                o.violate(format!("editor-refused-well-formed-program:{}", stage.split(' ').next().unwrap_or("")), format!("stage {stage}: {e}"));
            }
            world::set_clock(None);
            return o;
        }
        if sc.sign_with != SignWith::AllKeys {
            // success with an inadequate key set is allowed only if the result loads (checked below)
            o.ev("sign succeeded with a reduced key set");
        }
        // ================= phase 2: reload and compare =================
        let transport: SimTransport = dir_transport(meta_dir.clone(), targets_dir.clone(), None);
        let t2 = transport.clone();
        let shipped2 = shipped.clone();
        let loaded = block_on(async move { world::load(&shipped2, t2, None, world::LoadOpts::default()).await });
        let repo = match loaded {
            Ok(r) => r,
            Err(e) => {
                let big: Vec<&str> = all_roles.iter().skip(1).filter(|r| r.targets.len() > 8).map(|r| r.name.as_str()).collect();
                o.violate(
                    format!("written-repository-does-not-load:{}", crate::classify::classify(&e).name()),
                    format!("sign and write reported success, but loading the result fails with {} (roles with many targets: {big:?})", variant(&e)),
                );
                world::set_clock(None);
                return o;
            }
        };
        let mism = compare(&repo, w, &sc.top, sc.snap_v, sc.ts_v);
        if let Some(m) = mism.first() {
            o.violate("loaded-repository-differs-from-what-was-put-in", format!("{} mismatch(es), first: {m}", mism.len()));
        }
        let mm = compare_meta_with_files(&repo, &meta_dir, sc.consistent);
        if let Some(m) = mm.first() {
            o.violate("snapshot-or-timestamp-misdescribes-written-files", format!("{} mismatch(es), first: {m}", mm.len()));
        }
        if mism.is_empty() && mm.is_empty() {
            o.probe("written_repository_loaded_and_matches_model");
        }
        // is some delegated file larger than targets.json?
        let size_of = |name: &str, ver: u64| std::fs::metadata(meta_dir.join(if sc.consistent { format!("{ver}.{name}.json") } else { format!("{name}.json") })).map(|m| m.len()).unwrap_or(0);
        let tsize = size_of("targets", sc.top.version);
        if all_roles.iter().skip(1).any(|r| size_of(&r.name, r.version) > tsize) {
            o.probe("delegated_role_larger_than_targets_json");
        }
        let mut all_ok = true;
        for t in &all_targets {
            match block_on(read_all(&repo, &t.name)) {
                Ok(Some(b)) if b == t.content() => {}
                other => {
                    all_ok = false;
                    o.violate("published-target-does-not-read-back", format!("target {:?}: {:?}", t.name, other.map(|x| x.map(|b| b.len()))));
                }
            }
        }
        if all_ok && !all_targets.is_empty() {
            o.probe("all_targets_read_back");
        }
        o.nontrivial = all_roles.len() > 1;

        // ================= phase 2b: a later editing session of the owner =================
        if let Some(u) = &sc.update {
            let role_model: Option<&RoleM> = match u.role {
                None => Some(&sc.top),
                Some(i) => sc.top.children.get(i),
            };
            let Some(rm) = role_model else {
                o.harness("update refers to a missing role");
                world::set_clock(None);
                return o;
            };
            let meta3 = dir.join("metadata3");
            let t5 = dir_transport(meta_dir.clone(), targets_dir.clone(), None);
            let shipped5 = shipped.clone();
            let newc = |t: &TargetM| TargetM { seed: t.seed ^ 0xabcdef, size: t.size + 1, ..t.clone() };
            let mut model = sc.top.clone();
            {
                let m = match u.role {
                    None => &mut model,
                    Some(i) => &mut model.children[i],
                };
                for (ti, kind) in &u.ops {
                    let Some(t) = rm.targets.get(*ti) else { continue };
                    match kind {
                        UpdKind::Replace | UpdKind::RemoveThenReAdd => {
                            if let Some(x) = m.targets.iter_mut().find(|x| x.name == t.name) {
                                *x = newc(t);
                            }
                        }
                        UpdKind::Remove | UpdKind::ReplaceThenRemove => m.targets.retain(|x| x.name != t.name),
                    }
                }
                m.version += 1;
            }
            if u.role.is_some() {
                // the top-level role is re-signed too (new version) before the delegated one is edited
                model.version += 1;
            }
            let session: Result<(), String> = block_on(async {
                let repo_u = world::load(&shipped5, t5, None, world::LoadOpts::default()).await.map_err(|e| format!("reload: {}", variant(&e)))?;
                let mut ed = RepositoryEditor::from_repo(&root_path, repo_u).await.map_err(|e| format!("from_repo: {}", variant(&e)))?;
                if u.role.is_some() {
                    ed.targets_version(nz(sc.top.version + 1)).map_err(|e| variant(&e))?.targets_expires(dt(T0 + sc.top.expires_days * DAY)).map_err(|e| variant(&e))?;
                    ed.sign_targets_editor(&sc.top.sources(w)).await.map_err(|e| format!("sign top: {}", variant(&e)))?;
                    ed.change_delegated_targets(&rm.name).map_err(|e| format!("change_delegated_targets: {}", variant(&e)))?;
                }
                for (ti, kind) in &u.ops {
                    let Some(t) = rm.targets.get(*ti) else { continue };
                    let tn = TargetName::new(t.name.clone()).map_err(|e| format!("{e}"))?;
                    let add = |ed: &mut RepositoryEditor| ed.add_target(t.name.as_str(), newc(t).to_target()).map(|_| ()).map_err(|e| format!("add_target: {}", variant(&e)));
                    match kind {
                        UpdKind::Replace => add(&mut ed)?,
                        UpdKind::Remove => {
                            ed.remove_target(&tn).map_err(|e| variant(&e))?;
                        }
                        UpdKind::ReplaceThenRemove => {
                            add(&mut ed)?;
                            ed.remove_target(&tn).map_err(|e| variant(&e))?;
                        }
                        UpdKind::RemoveThenReAdd => {
                            ed.remove_target(&tn).map_err(|e| variant(&e))?;
                            add(&mut ed)?;
                        }
                    }
                }
                ed.targets_version(nz(rm.version + 1)).map_err(|e| variant(&e))?.targets_expires(dt(T0 + rm.expires_days * DAY)).map_err(|e| variant(&e))?;
                if u.role.is_some() && !u.short_keys {
                    ed.sign_targets_editor(&rm.sources(w)).await.map_err(|e| format!("sign role: {}", variant(&e)))?;
                }
                ed.snapshot_version(nz(sc.snap_v + 1)).snapshot_expires(dt(T0 + 30 * DAY)).timestamp_version(nz(sc.ts_v + 1)).timestamp_expires(dt(T0 + 2 * DAY));
                let final_keys = if !u.short_keys {
                    top_sources(sc, SignWith::AllKeys)
                } else if u.role.is_none() {
                    top_sources(sc, SignWith::NoTargetsKey)
                } else {
                    let mut k = top_sources(sc, SignWith::AllKeys);
                    k.extend(rm.sources(w).into_iter().take((rm.thr as usize).saturating_sub(1)));
                    k
                };
                let signed = ed.sign(&final_keys).await.map_err(|e| format!("sign: {}", variant(&e)))?;
                signed.write(&meta3).await.map_err(|e| format!("write: {}", variant(&e)))?;
                // the replaced targets are published again into the same targets directory with the
                // editor's own walker (flat names; the walker matches on file names only), the way
                // the first publication was done: keep what is there if it is right, replace it
                // when the walker objects
                let indir2 = dir.join("republish-in");
                std::fs::create_dir_all(&indir2).map_err(|e| e.to_string())?;
                let mut any = false;
                for (ti, kind) in &u.ops {
                    if let (Some(t), UpdKind::Replace | UpdKind::RemoveThenReAdd) = (rm.targets.get(*ti), kind) {
                        if !t.name.contains('/') {
                            std::fs::write(indir2.join(&t.name), newc(t).content()).map_err(|e| e.to_string())?;
                            any = true;
                        }
                    }
                }
                if any {
                    use tough::editor::signed::PathExists;
                    let first = if sc.link { signed.link_targets(&indir2, &targets_dir, PathExists::Skip).await } else { signed.copy_targets(&indir2, &targets_dir, PathExists::Skip).await };
                    if first.is_err() {
                        // the walker refuses a destination that holds other content (by design,
                        // whatever the replace behaviour): the publisher clears the old files of
                        // those names and publishes again
                        for (ti, kind) in &u.ops {
                            if let (Some(t), UpdKind::Replace | UpdKind::RemoveThenReAdd) = (rm.targets.get(*ti), kind) {
                                if !t.name.contains('/') && !sc.consistent {
                                    let _ = std::fs::remove_file(targets_dir.join(&t.name));
                                }
                            }
                        }
                        let second = if sc.link { signed.link_targets(&indir2, &targets_dir, PathExists::Skip).await } else { signed.copy_targets(&indir2, &targets_dir, PathExists::Skip).await };
                        second.map_err(|e| format!("republish: {}", variant(&e)))?;
                    }
                }
                Ok(())
            });
            drain_blocking();
            o.ev(format!("update session role={:?} ops={:?} short_keys={} -> {session:?}", u.role, u.ops, u.short_keys));
            if u.short_keys {
                o.fault("update_signed_with_too_few_keys");
            }
            match session {
                Err(e) if u.short_keys && e.starts_with("sign:") => o.probe("inadequate_update_keys_refused"),
                Err(e) => o.violate(format!("owner-update-session-refused:{}", e.split(':').next().unwrap_or("")), e),
                Ok(()) => {
                    // publish the replaced contents the way the client will ask for them
                    for (ti, kind) in &u.ops {
                        if let (Some(t), UpdKind::Replace | UpdKind::RemoveThenReAdd) = (rm.targets.get(*ti), kind) {
                            if !t.name.contains('/') {
                                // published by the editor's walker inside the session
                                continue;
                            }
                            let c = newc(t).content();
                            let p = targets_dir.join(world::target_file_name(sc.consistent, &t.name, &c));
                            if let Some(parent) = p.parent() {
                                let _ = std::fs::create_dir_all(parent);
                            }
                            let _ = std::fs::remove_file(&p);
                            let _ = std::fs::write(&p, c);
                        }
                    }
                    let t6 = dir_transport(meta3.clone(), targets_dir.clone(), None);
                    let shipped6 = shipped.clone();
                    match block_on(async move { world::load(&shipped6, t6, None, world::LoadOpts::default()).await }) {
                        Err(e) => o.violate("updated-repository-does-not-load", variant(&e)),
                        Ok(r3) => {
                            let mism = compare(&r3, w, &model, sc.snap_v + 1, sc.ts_v + 1);
                            if let Some(m) = mism.first() {
                                o.violate("update-session-result-differs-from-model", format!("{} mismatch(es), first: {m}", mism.len()));
                            } else {
                                // the replaced targets download and verify from the re-published directory
                                for (ti, kind) in &u.ops {
                                    if let (Some(t), UpdKind::Replace | UpdKind::RemoveThenReAdd) = (rm.targets.get(*ti), kind) {
                                        let want = newc(t).content();
                                        let got = block_on(async { read_all(&r3, &t.name).await });
                                        if got.as_ref().ok().and_then(|x| x.as_ref()) != Some(&want) {
                                            o.violate(
                                                "republished-target-does-not-read-back",
                                                format!("the session reported success, but {:?} reads back as {:?}", t.name, got.as_ref().map(|x| x.as_ref().map(Vec::len))),
                                            );
                                        }
                                    }
                                }
                                o.probe("owner_update_session_matches_model");
                            }
                        }
                    }
                }
            }
        }

        // ================= phase 3: cross-party flow =================
        if let Some(cx) = &sc.cross {
            let Some(role) = sc.top.children.get(cx.role) else {
                o.harness("cross refers to a missing role");
                world::set_clock(None);
                return o;
            };
            let incoming_dir = dir.join("incoming");
            // --- the role holder edits and signs its own role (real TargetsEditor)
            let holder: Result<(), String> = block_on(async {
                let mut te = TargetsEditor::from_repo(repo.clone(), &role.name).map_err(|e| format!("from_repo: {}", variant(&e)))?;
                let new_name = if cx.incoming == Incoming::OutOfPath { format!("outside-of-every-role/{}", cx.new_target.name) } else { cx.new_target.name.clone() };
                te.add_target(new_name.as_str(), cx.new_target.to_target()).map_err(|e| variant(&e))?;
                te.version(nz(role.version + 1)).expires(dt(T0 + 50 * DAY));
                let signed = te.sign(&role.sources(w)).await.map_err(|e| format!("holder sign: {}", variant(&e)))?;
                signed.write(&incoming_dir, false).await.map_err(|e| format!("holder write: {}", variant(&e)))?;
                Ok(())
            });
            drain_blocking();
            if cx.incoming == Incoming::OutOfPath && holder.is_err() {
                // the holder's own editor noticed: nothing reaches the owner
                o.probe("out_of_path_incoming_refused");
                o.fault("incoming_out_of_path");
                o.nontrivial = true;
                world::set_clock(None);
                return o;
            }
            if let Err(e) = holder {
                o.violate("role-holder-flow-refused", format!("TargetsEditor::from_repo/sign/write for role {}: {e}", role.name));
                world::set_clock(None);
                return o;
            }
            // --- in flight: the incoming document is what the scenario says
            let file = incoming_dir.join(format!("{}.json", quote_role_name(&role.name)));
            let genuine = std::fs::read(&file).unwrap_or_default();
            let Some(env) = J::parse(&genuine) else {
                o.harness("holder output does not parse");
                world::set_clock(None);
                return o;
            };
            let signed_part = env.get("signed").cloned().unwrap_or(J::Null);
            let sig_entries: Vec<SigEntry> = env
                .get("signatures")
                .map(J::items)
                .unwrap_or(&[])
                .iter()
                .filter_map(|e| Some(SigEntry { keyid: e.get("keyid")?.as_str()?.to_string(), sig: e.get("sig")?.as_str()?.to_string() }))
                .collect();
            let role_keys = role.key_objs(w);
            let mut hostile = true;
            let doc: Option<Doc> = match cx.incoming {
                Incoming::Genuine | Incoming::OutOfPath => {
                    hostile = false;
                    None
                }
                Incoming::UnderSigned => {
                    // fewer distinct valid signatures than the threshold (possible only for thr >= 2)
                    if role.thr >= 2 {
                        Some(Doc { signed: signed_part.clone(), sigs: sig_entries.iter().take(role.thr as usize - 1).cloned().collect() })
                    } else {
                        Some(Doc { signed: signed_part.clone(), sigs: vec![] })
                    }
                }
                Incoming::DuplicatedSignature => {
                    if role.thr >= 2 && !sig_entries.is_empty() {
                        Some(Doc { signed: signed_part.clone(), sigs: vec![sig_entries[0].clone(); role.thr as usize] })
                    } else {
                        hostile = false;
                        None
                    }
                }
                Incoming::WrongKeys => {
                    let wrong: Vec<_> = (0..role.thr.max(1)).map(|i| keys::ed(w, 9000 + i)).collect();
                    Some(Doc::signed_by(signed_part.clone(), &wrong))
                }
                Incoming::Older => {
                    let mut s2 = signed_part.clone();
                    s2.set("version", json::n(role.version - 1));
                    Some(Doc::signed_by(s2, &role_keys[..(role.thr as usize).min(role_keys.len())]))
                }
            };
            if let Some(d) = &doc {
                std::fs::write(&file, d.bytes()).unwrap();
            }
            match cx.incoming {
                Incoming::UnderSigned => o.fault("incoming_under_signed"),
                Incoming::DuplicatedSignature if hostile => o.fault("incoming_duplicated_signature"),
                Incoming::WrongKeys => o.fault("incoming_wrong_keys"),
                Incoming::Older => o.fault("incoming_older"),
                Incoming::OutOfPath => o.fault("incoming_out_of_path"),
                _ => {}
            }
            // --- the owner incorporates it
            let meta2 = dir.join("metadata2");
            let t3 = dir_transport(meta_dir.clone(), targets_dir.clone(), Some(incoming_dir.clone()));
            let t4 = dir_transport(meta2.clone(), targets_dir.clone(), None);
            let shipped3 = shipped.clone();
            let owner: Result<Result<(), String>, String> = block_on(async {
                let repo2 = world::load(&shipped3, t3, None, world::LoadOpts::default()).await.map_err(|e| format!("owner reload: {}", variant(&e)))?;
                let mut ed = RepositoryEditor::from_repo(&root_path, repo2).await.map_err(|e| format!("from_repo: {}", variant(&e)))?;
                if let Err(e) = ed.update_delegated_targets(&role.name, INCOMING_BASE).await {
                    return Ok(Err(variant(&e)));
                }
                ed.snapshot_version(nz(sc.snap_v + 1)).snapshot_expires(dt(T0 + 30 * DAY)).timestamp_version(nz(sc.ts_v + 1)).timestamp_expires(dt(T0 + 2 * DAY));
                let signed = match ed.sign(&top_sources(sc, SignWith::AllKeys)).await {
                    Ok(s) => s,
                    // refusing to sign a tree with an out-of-path target is a legitimate refusal
                    Err(e) if cx.incoming == Incoming::OutOfPath => return Ok(Err(format!("sign: {}", variant(&e)))),
                    Err(e) => return Err(format!("owner sign: {}", variant(&e))),
                };
                signed.write(&meta2).await.map_err(|e| format!("owner write: {}", variant(&e)))?;
                Ok(Ok(()))
            });
            drain_blocking();
            o.ev(format!("cross {:?} hostile={hostile} -> {owner:?}", cx.incoming));
            match owner {
                Err(e) => o.violate("owner-flow-failed", e),
                Ok(Err(_)) if cx.incoming == Incoming::OutOfPath => o.probe("out_of_path_incoming_refused"),
                Ok(Ok(())) if cx.incoming == Incoming::OutOfPath => {
                    // signing reported success: the written repository must load
                    let shipped4 = shipped.clone();
                    match block_on(async move { world::load(&shipped4, t4, None, world::LoadOpts::default()).await }) {
                        Err(e) => o.violate(
                            "signed-repository-with-out-of-path-target-does-not-load",
                            format!("the owner's sign() and write() succeeded after incorporating role {} with a target outside its paths, but the client refuses the result: {}", role.name, variant(&e)),
                        ),
                        Ok(_) => o.probe("out_of_path_incoming_signed_and_loadable"),
                    }
                }
                Ok(Err(e)) => {
                    if hostile {
                        o.probe("hostile_incoming_refused");
                    } else {
                        o.violate("genuine-incoming-metadata-refused", format!("update_delegated_targets refused metadata signed by the role's own keys at a higher version: {e}"));
                    }
                }
                Ok(Ok(())) => {
                    if hostile {
                        o.violate(
                            format!("hostile-incoming-metadata-incorporated:{:?}", cx.incoming),
                            format!("update_delegated_targets accepted {:?} metadata for role {} (threshold {}, {} keys)", cx.incoming, role.name, role.thr, role.keys.len()),
                        );
                    } else {
                        // the re-signed repository must load and show the holder's change
                        let shipped4 = shipped.clone();
                        let re = block_on(async move { world::load(&shipped4, t4, None, world::LoadOpts::default()).await });
                        match re {
                            Err(e) => o.violate("repository-with-incorporated-role-does-not-load", variant(&e)),
                            Ok(r2) => {
                                let mut model = sc.top.clone();
                                if let Some(rm) = model.find_mut(&role.name) {
                                    rm.version = role.version + 1;
                                    rm.expires_days = 50;
                                    rm.targets.push(cx.new_target.clone());
                                }
                                let mism = compare(&r2, w, &model, sc.snap_v + 1, sc.ts_v + 1);
                                if let Some(m) = mism.first() {
                                    o.violate("incorporated-repository-differs-from-model", format!("{} mismatch(es), first: {m}", mism.len()));
                                } else {
                                    o.probe("genuine_incoming_incorporated");
                                }
                            }
                        }
                    }
                }
            }
            o.nontrivial = true;
        }
        world::set_clock(None);
        o
    }
}
