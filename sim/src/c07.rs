//! C07 — a delegated role can only provide targets inside its delegated paths.
//! (Weakest fit for simulation: the only faulty party is a Byzantine delegatee; see DESIGN §5.)

use crate::classify::{classify, variant, Class};
use crate::engine::{block_on, Check, Outcome, Tier};
use crate::json;
use crate::keys;
use crate::prng::Rng;
use crate::publisher::*;
use crate::transport::{Base, Resp, SimTransport};
use crate::world::{self, RepoSpec, RoleNode};
use futures::StreamExt;
use serde::{Deserialize, Serialize};
use serde_json::{json, Value};
use std::collections::BTreeSet;
use std::sync::{Arc, Mutex};
use tough::TargetName;

#[derive(Clone, Debug, Serialize, Deserialize)]
pub enum PathsSc {
    Globs(Vec<String>),
    Hash(Vec<String>),
}

#[derive(Clone, Debug, Serialize, Deserialize)]
pub struct RoleSc {
    pub name: String,
    pub paths: PathsSc,
    /// (target name as listed, content id)
    pub targets: Vec<(String, u8)>,
    pub children: Vec<RoleSc>,
}

#[derive(Clone, Debug, Serialize, Deserialize)]
pub struct Sc {
    pub world: u64,
    pub consistent: bool,
    pub top_targets: Vec<(String, u8)>,
    pub roles: Vec<RoleSc>,
    /// names that nobody lists, asked for as well
    pub unlisted: Vec<String>,
}

pub struct C07;

fn content(cid: u8) -> Vec<u8> {
    format!("content-{cid}").into_bytes()
}

/// Reference glob: literals, `*`, `?`. `cross` = wildcards may match '/'.
pub fn glob_match(p: &[u8], t: &[u8], cross: bool) -> bool {
    if p.is_empty() {
        return t.is_empty();
    }
    match p[0] {
        b'*' => {
            // zero or more characters
            let mut i = 0;
            loop {
                if glob_match(&p[1..], &t[i..], cross) {
                    return true;
                }
                if i >= t.len() || (!cross && t[i] == b'/') {
                    return false;
                }
                i += 1;
            }
        }
        b'?' => !t.is_empty() && (cross || t[0] != b'/') && glob_match(&p[1..], &t[1..], cross),
        c => !t.is_empty() && t[0] == c && glob_match(&p[1..], &t[1..], cross),
    }
}

/// Resolve `.` and `..` segments the way a path cleaner does (reference for "resolved name").
fn resolve(name: &str) -> String {
    let mut out: Vec<&str> = Vec::new();
    for seg in name.split('/') {
        match seg {
            "" | "." => {}
            ".." => {
                out.pop();
            }
            s => out.push(s),
        }
    }
    out.join("/")
}

struct Matcher {
    ambiguous: bool,
}

impl Matcher {
    fn matches(&mut self, paths: &PathsSc, resolved: &str) -> bool {
        match paths {
            PathsSc::Globs(gs) => {
                let mut any_cross = false;
                let mut any_strict = false;
                for g in gs {
                    let a = glob_match(g.as_bytes(), resolved.as_bytes(), true);
                    let b = glob_match(g.as_bytes(), resolved.as_bytes(), false);
                    any_cross |= a;
                    any_strict |= b;
                }
                if any_cross != any_strict {
                    self.ambiguous = true;
                }
                any_cross
            }
            PathsSc::Hash(ps) => {
                let h = json::sha256_hex(resolved.as_bytes());
                ps.iter().any(|p| h.starts_with(p.as_str()))
            }
        }
    }
}

/// Pre-order lookup with pruning: the role's own entries first, then its delegates in listed order.
fn ref_find(m: &mut Matcher, own: &[(String, u8)], children: &[RoleSc], raw: &str, resolved: &str) -> Option<(String, u8)> {
    if let Some((_, cid)) = own.iter().find(|(n, _)| n == raw) {
        return Some(("self".into(), *cid));
    }
    for c in children {
        if !m.matches(&c.paths, resolved) {
            continue;
        }
        if let Some((who, cid)) = ref_find(m, &c.targets, &c.children, raw, resolved) {
            return Some((if who == "self" { c.name.clone() } else { who }, cid));
        }
    }
    None
}

fn to_node(world: u64, r: &RoleSc, counter: &mut u64) -> RoleNode {
    *counter += 1;
    let k = keys::ed(world, 50 + *counter);
    let mut seen = BTreeSet::new();
    RoleNode {
        name: r.name.clone(),
        keys: RoleKeys::one(&k),
        signers: vec![k],
        paths: match &r.paths {
            PathsSc::Globs(g) => Paths::Globs(g.clone()),
            PathsSc::Hash(h) => Paths::HashPrefixes(h.clone()),
        },
        terminating: false,
        version: 1,
        expires: FAR,
        targets: r.targets.iter().filter(|(n, _)| seen.insert(n.clone())).map(|(n, cid)| TargetEntry::of(n, &content(*cid))).collect(),
        children: r.children.iter().map(|c| to_node(world, c, counter)).collect(),
        extra: vec![],
    }
}

fn all_listed(sc: &Sc) -> Vec<(String, u8)> {
    fn walk(r: &RoleSc, out: &mut Vec<(String, u8)>) {
        out.extend(r.targets.iter().cloned());
        for c in &r.children {
            walk(c, out);
        }
    }
    let mut out = sc.top_targets.clone();
    for r in &sc.roles {
        walk(r, &mut out);
    }
    out
}

const NAMES: [&str; 14] = ["a", "b", "ab", "d/a", "d/b", "d/e/a", "d/e/b", "x/../a", "d/x/../b", "a.b", "d/a.b", "e/a", "a-1", "d/./a"];

fn gen_paths(r: &mut Rng) -> PathsSc {
    if r.chance(2, 5) {
        // permissive delegation (the empty hash prefix matches every name and has no
        // separator ambiguity): keeps a good share of trees fully authorised
        return PathsSc::Hash(vec![String::new()]);
    }
    if r.chance(1, 5) {
        let n = 1 + r.usize_below(2);
        PathsSc::Hash((0..n).map(|_| { let l = r.usize_below(3); let h = format!("{:02x}", r.below(256)); h[..l].to_string() }).collect())
    } else {
        let pats = ["*", "a", "b", "d/*", "d/a", "d/?", "?", "a*", "d/e/*", "*b", "d/e/?", "e/*", "d/*/a", "??", "a.b", "*.b", "d/a*"];
        let n = 1 + r.usize_below(2);
        PathsSc::Globs((0..n).map(|_| (*r.pick(&pats)).to_string()).collect())
    }
}

fn gen_role(r: &mut Rng, depth: usize, counter: &mut usize, names: &[&str]) -> RoleSc {
    let name = format!("r{}", *counter);
    *counter += 1;
    let nt = r.usize_below(3);
    let targets = (0..nt).map(|_| ((*r.pick(names)).to_string(), r.below(4) as u8)).collect();
    let mut children = Vec::new();
    if depth < 3 && *counter < 7 {
        for _ in 0..r.usize_below(3) {
            if *counter >= 7 {
                break;
            }
            children.push(gen_role(r, depth + 1, counter, names));
        }
    }
    RoleSc { name, paths: gen_paths(r), targets, children }
}

impl Check for C07 {
    type Scenario = Sc;
    fn id(&self) -> &'static str {
        "C07"
    }
    fn rule(&self) -> String {
        "delegation trees of depth <=3 and fan-out <=3 built by a Byzantine delegatee/publisher; path sets from literals, '*', '?' and hash prefixes; <=6 target names (incl. names needing resolution such as x/../a) placed in any roles, the same name in several roles with different digests; every listed name is read back with every candidate content; the client keeps a datastore and a refused repository is offered a second time; non-trivial = some entry lies outside its delegated paths or is shadowed by an earlier pre-order entry; distinct = distinct canonical trace".into()
    }
    fn assumptions(&self) -> Vec<String> {
        vec![
            "wildcard-vs-separator semantics are left open: a (pattern, name) pair on which 'wildcards cross /' and 'do not cross /' disagree makes the case ambiguous and unjudged".into(),
            "terminating is always false (the statement is silent on it)".into(),
            "the deciding step is seeded generation against a reference lookup; there is no clock, storage or schedule in this property".into(),
        ]
    }
    fn components(&self) -> Value {
        json!({"real": ["tough load (load_delegations, Targets::validate)", "Targets::find_target", "PathSet matching (globset)", "TargetName resolution", "read_target digest enforcement"], "stub": ["transport (SimTransport)", "foreign publisher (Byzantine delegatee)"]})
    }
    fn runs(&self, tier: Tier) -> u64 {
        match tier {
            Tier::Quick => 10_000,
            Tier::Thorough => 500_000,
        }
    }
    fn required_faults(&self, _t: Tier) -> Vec<&'static str> {
        vec!["entry_outside_delegated_paths", "same_name_in_several_roles", "name_needing_resolution"]
    }
    fn required_probes(&self, _t: Tier) -> Vec<&'static str> {
        vec!["unauthorised_tree_refused_at_load", "unauthorised_tree_refused_again_on_retry", "shadowed_entry_content_refused", "reference_entry_served", "not_found_for_unlisted"]
    }
    fn generate(&self, seed: u64, _tier: Tier) -> Sc {
        let mut r = Rng::new(seed);
        let mut names: Vec<&str> = NAMES.to_vec();
        r.shuffle(&mut names);
        names.truncate(2 + r.usize_below(5));
        let mut counter = 0usize;
        let mut roles = Vec::new();
        for _ in 0..1 + r.usize_below(3) {
            if counter >= 7 {
                break;
            }
            roles.push(gen_role(&mut r, 1, &mut counter, &names));
        }
        let nt = r.usize_below(3);
        let top_targets = (0..nt).map(|_| ((*r.pick(&names)).to_string(), r.below(4) as u8)).collect();
        Sc { world: r.below(1_000_003), consistent: r.chance(1, 2), top_targets, roles, unlisted: vec!["zz".into(), "d/zz".into()] }
    }
    fn shrink(&self, sc: &Sc) -> Vec<Sc> {
        let mut v = Vec::new();
        if sc.consistent {
            v.push(Sc { consistent: false, ..sc.clone() });
        }
        for i in 0..sc.roles.len() {
            let mut s = sc.clone();
            s.roles.remove(i);
            v.push(s);
        }
        for i in 0..sc.top_targets.len() {
            let mut s = sc.clone();
            s.top_targets.remove(i);
            v.push(s);
        }
        // remove children / targets one level down
        for i in 0..sc.roles.len() {
            for j in 0..sc.roles[i].children.len() {
                let mut s = sc.clone();
                s.roles[i].children.remove(j);
                v.push(s);
            }
            for j in 0..sc.roles[i].targets.len() {
                let mut s = sc.clone();
                s.roles[i].targets.remove(j);
                v.push(s);
            }
            for j in 0..sc.roles[i].children.len() {
                for k in 0..sc.roles[i].children[j].children.len() {
                    let mut s = sc.clone();
                    s.roles[i].children[j].children.remove(k);
                    v.push(s);
                }
                for k in 0..sc.roles[i].children[j].targets.len() {
                    let mut s = sc.clone();
                    s.roles[i].children[j].targets.remove(k);
                    v.push(s);
                }
            }
        }
        if !sc.unlisted.is_empty() {
            v.push(Sc { unlisted: vec![], ..sc.clone() });
        }
        v
    }
    fn run(&self, sc: &Sc) -> Outcome {
        let mut o = Outcome::new();
        let w = sc.world;
        let mut spec = RepoSpec::basic(w, sc.consistent);
        let mut seen = BTreeSet::new();
        for (n, cid) in &sc.top_targets {
            if seen.insert(n.clone()) {
                spec.targets.push(TargetEntry::of(n, &content(*cid)));
            }
        }
        let mut counter = 0u64;
        for r in &sc.roles {
            spec.delegated.push(to_node(w, r, &mut counter));
        }
        let built = world::build(&spec);

        // ---- reference
        // duplicate listings of one name inside one role: the first wins (as built above)
        fn dedup(r: &RoleSc) -> RoleSc {
            let mut seen = BTreeSet::new();
            RoleSc {
                name: r.name.clone(),
                paths: r.paths.clone(),
                targets: r.targets.iter().filter(|(n, _)| seen.insert(n.clone())).cloned().collect(),
                children: r.children.iter().map(dedup).collect(),
            }
        }
        let roles: Vec<RoleSc> = sc.roles.iter().map(dedup).collect();
        let mut s2 = BTreeSet::new();
        let top: Vec<(String, u8)> = sc.top_targets.iter().filter(|(n, _)| s2.insert(n.clone())).cloned().collect();
        let listed = all_listed(&Sc { roles: roles.clone(), top_targets: top.clone(), ..sc.clone() });
        let mut m = Matcher { ambiguous: false };
        let mut unreachable: Vec<String> = Vec::new();
        let names: BTreeSet<String> = listed.iter().map(|(n, _)| n.clone()).collect();
        let mut refs: Vec<(String, Option<(String, u8)>)> = Vec::new();
        for n in &names {
            let f = ref_find(&mut m, &top, &roles, n, &resolve(n));
            if f.is_none() {
                unreachable.push(n.clone());
            }
            refs.push((n.clone(), f));
        }
        for n in &sc.unlisted {
            let f = ref_find(&mut m, &top, &roles, n, &resolve(n));
            refs.push((n.clone(), f));
        }
        o.ev(format!("cfg consistent={} top={:?} roles={:?}", sc.consistent, top, roles));
        o.ev(format!("ref unreachable={unreachable:?} ambiguous={} refs={refs:?}", m.ambiguous));
        if m.ambiguous {
            o.inconclusive("wildcard/separator semantics decide this case");
            return o;
        }
        // fault accounting: an entry is outside its paths / shadowed when it is not the reference one
        let mut interesting = false;
        {
            fn count(r: &RoleSc, refs: &[(String, Option<(String, u8)>)], out: &mut (u64, u64)) {
                for (n, _) in &r.targets {
                    match refs.iter().find(|(rn, _)| rn == n).and_then(|(_, f)| f.as_ref()) {
                        Some((who, _)) if *who == r.name => {}
                        Some(_) => out.1 += 1,
                        None => out.0 += 1,
                    }
                }
                for c in &r.children {
                    count(c, refs, out);
                }
            }
            let mut c = (0u64, 0u64);
            for r in &roles {
                count(r, &refs, &mut c);
            }
            o.fault_n("entry_outside_delegated_paths", c.0);
            o.fault_n("same_name_in_several_roles", c.1);
            if names.iter().any(|n| resolve(n) != *n) {
                o.fault("name_needing_resolution");
            }
            interesting = c.0 + c.1 > 0;
        }

        // ---- run the client
        let current: Arc<Mutex<Vec<u8>>> = Arc::new(Mutex::new(Vec::new()));
        let cur2 = current.clone();
        let meta = built.files.meta.clone();
        let transport = SimTransport::new(move |r| match r.base {
            Base::Metadata => meta.get(&r.rel).map_or(Resp::not_found(), |b| Resp::whole(b)),
            Base::Targets => Resp::whole(&cur2.lock().unwrap()),
            Base::Unknown => Resp::not_found(),
        });
        let shipped = built.root.bytes();
        let t2 = transport.clone();
        // the client keeps a datastore: a refused repository is offered a second time, and what
        // the refused attempt left behind must not make the retry succeed
        let scratch = crate::engine::Scratch::new();
        let ds = scratch.dir("datastore");
        let (shipped_a, ds_a) = (shipped.clone(), ds.clone());
        let loaded = block_on(async move { world::load(&shipped_a, t2, Some(&ds_a), world::LoadOpts::default()).await });
        let must_fail = !unreachable.is_empty();
        if must_fail && loaded.is_err() {
            let t3 = transport.clone();
            let (shipped_b, ds_b) = (shipped.clone(), ds.clone());
            let retry = block_on(async move { world::load(&shipped_b, t3, Some(&ds_b), world::LoadOpts::default()).await.map(|_| ()) });
            o.ev(format!("retry on the same datastore -> {:?}", retry.as_ref().map_err(variant)));
            if retry.is_ok() {
                o.violate(
                    "unreachable-entry-accepted-at-load:on-retry",
                    format!("the first load was refused, the second load on the same datastore succeeded although no authorised chain reaches {unreachable:?}"),
                );
            } else {
                o.probe("unauthorised_tree_refused_again_on_retry");
            }
        }
        match &loaded {
            Ok(_) => {
                if must_fail {
                    o.violate(
                        "unreachable-entry-accepted-at-load",
                        format!("load succeeded although no authorised chain reaches the listed name(s) {unreachable:?}"),
                    );
                }
            }
            Err(e) => {
                let (c, var) = (classify(e), variant(e));
                o.ev(format!("load failed {} {var}", c.name()));
                if must_fail {
                    o.probe("unauthorised_tree_refused_at_load");
                } else if c == Class::Path {
                    o.violate("authorised-tree-refused", format!("every listed name is reached by an authorised chain, yet load failed with {var}"));
                } else {
                    o.harness(format!("clean tree failed to load with {var} ({})", c.name()));
                }
            }
        }
        if let Ok(repo) = &loaded {
            // candidate contents: every content id used anywhere
            let cids: BTreeSet<u8> = listed.iter().map(|(_, c)| *c).collect();
            for (n, f) in &refs {
                let Ok(tn) = TargetName::new(n.as_str()) else {
                    o.harness(format!("generated name {n} is not a valid TargetName"));
                    break;
                };
                match f {
                    None => {
                        *current.lock().unwrap() = content(0);
                        let r = block_on(async { repo.read_target(&tn).await.map(|s| s.is_some()) });
                        match r {
                            Ok(false) => o.probe("not_found_for_unlisted"),
                            Ok(true) => o.violate("data-for-unauthorised-name", format!("read_target({n}) returned a stream although no authorised entry exists")),
                            Err(e) => o.harness(format!("read_target({n}) failed: {}", variant(&e))),
                        }
                    }
                    Some((who, ref_cid)) => {
                        for cid in &cids {
                            *current.lock().unwrap() = content(*cid);
                            let r = block_on(async {
                                match repo.read_target(&tn).await {
                                    Ok(Some(mut s)) => {
                                        let mut got = Vec::new();
                                        while let Some(item) = s.next().await {
                                            match item {
                                                Ok(b) => got.extend_from_slice(&b),
                                                Err(_) => return Ok(None),
                                            }
                                        }
                                        Ok(Some(got))
                                    }
                                    Ok(None) => Err("none".to_string()),
                                    Err(e) => Err(variant(&e)),
                                }
                            });
                            o.ev(format!("read {n} cid={cid} ref={who}/{ref_cid} -> {:?}", r.as_ref().map(|g| g.as_ref().map(Vec::len))));
                            match r {
                                Err(e) => o.violate("authorised-name-not-served", format!("read_target({n}) = {e}; reference entry is in {who}")),
                                Ok(Some(_)) if cid != ref_cid => o.violate(
                                    "wrong-entry-served",
                                    format!("read_target({n}) accepted content {cid}; the first pre-order authorised entry (in {who}) signs content {ref_cid}"),
                                ),
                                Ok(Some(_)) => o.probe("reference_entry_served"),
                                Ok(None) if cid == ref_cid => o.violate("reference-entry-refused", format!("read_target({n}) refused the content signed by the reference entry in {who}")),
                                Ok(None) => o.probe("shadowed_entry_content_refused"),
                            }
                        }
                    }
                }
            }
        }
        o.nontrivial = interesting;
        o
    }
}
