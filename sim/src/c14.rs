//! C14 — online-key rotation lets clients recover from fast-forwarded versions.

use crate::classify::{classify, variant, Class};
use crate::engine::{block_on, Check, Outcome, Scratch, Tier};
use crate::keys;
use crate::prng::Rng;
use crate::publisher::*;
use crate::transport::{Base, Resp, SimTransport};
use crate::world::{self, sign_threshold};
use serde::{Deserialize, Serialize};
use serde_json::{json, Value};
use std::collections::BTreeSet;

#[derive(Clone, Debug, Serialize, Deserialize, PartialEq, Eq)]
pub struct KeySet {
    pub keys: Vec<u64>,
    pub thr: u64,
}

#[derive(Clone, Debug, Serialize, Deserialize, PartialEq, Eq)]
pub struct RootEp {
    pub ts: KeySet,
    pub snap: KeySet,
}

#[derive(Clone, Debug, Serialize, Deserialize)]
pub struct Sc {
    pub world: u64,
    pub consistent: bool,
    /// roots[0] is the shipped root (the only one published in cycle 1)
    pub roots: Vec<RootEp>,
    pub v1: (u64, u64, u64),
    pub v2: (u64, u64, u64),
    /// between the two cycles the client makes one more attempt that sees the newer roots but
    /// cannot finish: 1 = timestamp.json is unavailable, 2 = the snapshot file is unavailable
    /// (0 = no such attempt). The judged cycle comes after it.
    #[serde(default)]
    pub interrupted: u8,
}

pub struct C14;

fn rk(world: u64, base: u64, ks: &KeySet) -> RoleKeys {
    RoleKeys { keys: ks.keys.iter().map(|n| keys::ed(world, base + n)).collect(), threshold: ks.thr }
}

fn root_spec(sc: &Sc, i: usize) -> RootSpec {
    RootSpec {
        version: (i + 1) as u64,
        expires: FAR,
        consistent_snapshot: sc.consistent,
        root: RoleKeys::one(&keys::ed(sc.world, 1)),
        timestamp: rk(sc.world, 3000, &sc.roots[i].ts),
        snapshot: rk(sc.world, 4000, &sc.roots[i].snap),
        targets: RoleKeys::one(&keys::ed(sc.world, 4)),
    }
}

fn state(sc: &Sc, epoch: usize, v: (u64, u64, u64)) -> Files {
    let root = root_spec(sc, epoch);
    let mut files = Files::new();
    for i in 0..=epoch {
        let d = Doc::signed_by(root_spec(sc, i).signed(), &[keys::ed(sc.world, 1)]);
        files.meta.insert(format!("{}.root.json", i + 1), d.bytes());
    }
    let tg = sign_threshold(targets_signed(v.2, FAR, &[], None), &root.targets);
    let tgb = tg.bytes();
    let sn = sign_threshold(snapshot_signed(v.1, FAR, &[("targets.json".to_string(), Meta::of(v.2, &tgb, true, true))]), &root.snapshot);
    let snb = sn.bytes();
    let ts = sign_threshold(timestamp_signed(v.0, FAR, &Meta::of(v.1, &snb, true, true)), &root.timestamp);
    files.meta.insert("timestamp.json".into(), ts.bytes());
    if sc.consistent {
        files.meta.insert(format!("{}.snapshot.json", v.1), snb);
        files.meta.insert(format!("{}.targets.json", v.2), tgb);
    } else {
        files.meta.insert("snapshot.json".into(), snb);
        files.meta.insert("targets.json".into(), tgb);
    }
    files
}

fn rotate(r: &mut Rng, k: &KeySet, next: &mut u64) -> (KeySet, &'static str) {
    match r.below(7) {
        0 => (k.clone(), "none"),
        6 => {
            // revoke the last key, keep the leading ones in place (or replace when only one)
            let mut keys = k.keys.clone();
            if keys.len() >= 2 {
                keys.pop();
            } else {
                *next += 1;
                keys = vec![*next];
            }
            let thr = k.thr.min(keys.len() as u64).max(1);
            (KeySet { keys, thr }, "drop-last")
        }
        1 => {
            // disjoint
            let n = 1 + r.usize_below(2);
            let keys: Vec<u64> = (0..n).map(|_| { *next += 1; *next }).collect();
            let thr = 1 + r.below(n as u64);
            (KeySet { keys, thr }, "disjoint")
        }
        2 => {
            // one old key replaced, another kept, threshold 1: the stored file may still verify
            let mut keys = k.keys.clone();
            *next += 1;
            if keys.len() >= 2 {
                keys[1] = *next;
            } else {
                keys.push(*next);
                // keep the old key too (pure addition)
            }
            (KeySet { keys, thr: 1 }, "overlap")
        }
        3 => {
            // drop the first key, keep the rest (or replace when only one)
            let mut keys = k.keys.clone();
            if keys.len() >= 2 {
                keys.remove(0);
            } else {
                *next += 1;
                keys = vec![*next];
            }
            let thr = k.thr.min(keys.len() as u64).max(1);
            (KeySet { keys, thr }, "drop-one")
        }
        4 => {
            // threshold only
            let thr = if k.thr > 1 { k.thr - 1 } else { (k.thr + 1).min(k.keys.len() as u64) };
            (KeySet { keys: k.keys.clone(), thr }, "threshold")
        }
        _ => {
            *next += 1;
            let mut keys = k.keys.clone();
            keys.push(*next);
            (KeySet { keys, thr: k.thr }, "add")
        }
    }
}

impl Check for C14 {
    type Scenario = Sc;
    fn id(&self) -> &'static str {
        "C14"
    }
    fn rule(&self) -> String {
        "two-cycle history on one datastore: cycle 1 stores timestamp/snapshot at versions drawn from {small, 2^32, 2^63-1, ...} signed with the then-current keys; before cycle 2 a chain of 0..3 newer roots rotates timestamp and/or snapshot keys (disjoint, overlapping, drop-first, drop-last, add, threshold-only, none, rotate-and-back); in a third of the histories one more attempt in between sees the newer roots but finds the timestamp or the snapshot unavailable; cycle 2 serves low versions; non-trivial = cycle 2 served a timestamp or snapshot version lower than the stored one; distinct = distinct canonical trace".into()
    }
    fn assumptions(&self) -> Vec<String> {
        vec![
            "the client ships the same (old) root in both cycles".into(),
            "a pure key addition or a threshold-only change is not judged (the statement speaks of replaced keys); rotate-and-rotate-back is not judged".into(),
        ]
    }
    fn components(&self) -> Value {
        json!({"real": ["tough load (root walk incl. step 1.9, timestamp/snapshot rollback checks)", "Datastore on a real directory", "schema/verification", "olpc-cjson", "aws-lc-rs"], "stub": ["transport (SimTransport)", "foreign publisher", "clock (H1, fixed)"]})
    }
    fn runs(&self, tier: Tier) -> u64 {
        match tier {
            Tier::Quick => 15_000,
            Tier::Thorough => 500_000,
        }
    }
    fn required_faults(&self, _t: Tier) -> Vec<&'static str> {
        vec!["fast_forwarded_timestamp_stored", "fast_forwarded_snapshot_stored", "keys_replaced_old_file_still_verifies", "keys_replaced_disjoint", "no_rotation_replay", "attempt_cut_short_after_root_update"]
    }
    fn required_probes(&self, _t: Tier) -> Vec<&'static str> {
        vec!["recovered_after_rotation", "rollback_refused_without_rotation"]
    }
    fn generate(&self, seed: u64, _tier: Tier) -> Sc {
        let mut r = Rng::new(seed);
        let mut next = 10u64;
        let mk = |r: &mut Rng, next: &mut u64| {
            let n = 1 + r.usize_below(2);
            let keys: Vec<u64> = (0..n).map(|_| { *next += 1; *next }).collect();
            KeySet { thr: 1 + r.below(n as u64), keys }
        };
        let first = RootEp { ts: mk(&mut r, &mut next), snap: mk(&mut r, &mut next) };
        let mut roots = vec![first.clone()];
        let hops = r.usize_below(4);
        for _ in 0..hops {
            let p = roots.last().unwrap().clone();
            let which = r.below(4);
            let ts = if which & 1 != 0 || which == 0 { rotate(&mut r, &p.ts, &mut next).0 } else { p.ts.clone() };
            let snap = if which & 2 != 0 { rotate(&mut r, &p.snap, &mut next).0 } else { p.snap.clone() };
            roots.push(RootEp { ts, snap });
        }
        if hops >= 2 && r.chance(1, 6) {
            // rotate and rotate back
            let n = roots.len();
            roots[n - 1] = first;
        }
        let big = [5u64, 1000, 1 << 32, (1 << 63) - 1, u64::MAX - 1, 3];
        let v1 = (*r.pick(&big), *r.pick(&big), 1 + r.below(3));
        let low = |r: &mut Rng, old: u64| if r.chance(1, 6) { old } else { 1 + r.below(3) };
        let v2 = (low(&mut r, v1.0), low(&mut r, v1.1), v1.2 + r.below(2));
        let interrupted = if r.chance(1, 3) { 1 + r.below(2) as u8 } else { 0 };
        Sc { world: r.below(1_000_003), consistent: r.chance(1, 2), roots, v1, v2, interrupted }
    }
    fn shrink(&self, sc: &Sc) -> Vec<Sc> {
        let mut v = Vec::new();
        if sc.roots.len() > 2 {
            let mut rs = sc.roots.clone();
            rs.remove(1);
            v.push(Sc { roots: rs, ..sc.clone() });
        }
        if sc.consistent {
            v.push(Sc { consistent: false, ..sc.clone() });
        }
        if sc.interrupted != 0 {
            v.push(Sc { interrupted: 0, ..sc.clone() });
        }
        if sc.v1.0 > 9 {
            v.push(Sc { v1: (9, sc.v1.1, sc.v1.2), ..sc.clone() });
        }
        if sc.v1.1 > 9 {
            v.push(Sc { v1: (sc.v1.0, 9, sc.v1.2), ..sc.clone() });
        }
        v
    }
    fn run(&self, sc: &Sc) -> Outcome {
        let mut o = Outcome::new();
        if sc.roots.is_empty() {
            o.harness("degenerate");
            return o;
        }
        let scratch = Scratch::new();
        let ds = scratch.dir("datastore");
        world::set_clock(Some(T0));
        let last = sc.roots.len() - 1;
        o.ev(format!("cfg consistent={} roots={:?} v1={:?} v2={:?} interrupted={}", sc.consistent, sc.roots, sc.v1, sc.v2, sc.interrupted));
        let run_cycle_without = |epoch: usize, v: (u64, u64, u64), withheld: u8| {
            let files = state(sc, epoch, v);
            let shipped = files.meta.get("1.root.json").cloned().unwrap();
            let mut meta = files.meta.clone();
            match withheld {
                1 => meta.retain(|k, _| k != "timestamp.json"),
                2 => meta.retain(|k, _| !k.ends_with("snapshot.json")),
                _ => {}
            }
            let transport = SimTransport::new(move |r| {
                if r.base == Base::Metadata {
                    meta.get(&r.rel).map_or(Resp::not_found(), |b| Resp::whole(b))
                } else {
                    Resp::not_found()
                }
            });
            let ds2 = ds.clone();
            block_on(async move {
                match world::load(&shipped, transport, Some(&ds2), world::LoadOpts::default()).await {
                    Ok(repo) => Ok((repo.timestamp().signed.version.get(), repo.snapshot().signed.version.get())),
                    Err(e) => Err((classify(&e), variant(&e))),
                }
            })
        };
        let run_cycle = |epoch: usize, v: (u64, u64, u64)| run_cycle_without(epoch, v, 0);
        let r1 = run_cycle(0, sc.v1);
        o.ev(format!("cycle1 -> {:?}", r1.as_ref().map_err(|e| (e.0.name(), e.1.clone()))));
        if r1.is_err() {
            world::set_clock(None);
            o.harness(format!("clean first cycle failed: {r1:?}"));
            return o;
        }
        if sc.interrupted != 0 {
            let ri = run_cycle_without(last, sc.v2, sc.interrupted);
            o.ev(format!("interrupted attempt (withheld {}) -> {:?}", sc.interrupted, ri.as_ref().map_err(|e| (e.0.name(), e.1.clone()))));
            if ri.is_err() {
                o.fault("attempt_cut_short_after_root_update");
            }
        }
        let r2 = run_cycle(last, sc.v2);
        o.ev(format!("cycle2 -> {:?}", r2.as_ref().map_err(|e| (e.0.name(), e.1.clone()))));
        world::set_clock(None);

        let set = |k: &KeySet| k.keys.iter().copied().collect::<BTreeSet<u64>>();
        let first = &sc.roots[0];
        let fin = &sc.roots[last];
        let removed = |a: &KeySet, b: &KeySet| !set(a).is_subset(&set(b));
        let replaced = removed(&first.ts, &fin.ts) || removed(&first.snap, &fin.snap);
        let any_change_on_chain = sc.roots.windows(2).any(|w| w[0] != w[1]);
        let lower = sc.v2.0 < sc.v1.0 || sc.v2.1 < sc.v1.1;
        // does the stored file still verify under the final root? (signed by the first thr keys)
        let still_verifies = |a: &KeySet, b: &KeySet| a.keys.iter().take(a.thr as usize).filter(|k| b.keys.contains(k)).count() as u64 >= b.thr;

        if replaced {
            match &r2 {
                Ok(_) => {
                    if lower {
                        o.probe("recovered_after_rotation");
                    }
                }
                Err((Class::Rollback, var)) => o.violate(
                    format!(
                        "fast-forward-recovery-blocked:{}",
                        if still_verifies(&first.ts, &fin.ts) || still_verifies(&first.snap, &fin.snap) { "old-keys-partly-retained" } else { "keys-disjoint" }
                    ),
                    format!("a newer root replaced timestamp/snapshot keys, yet cycle 2 was refused with {var} because of the versions stored before"),
                ),
                Err((c, var)) => o.harness(format!("clean second cycle failed with {var} ({})", c.name())),
            }
        } else if !any_change_on_chain {
            match &r2 {
                Ok(_) if lower => o.violate("rollback-accepted-without-rotation", format!("no root changed timestamp/snapshot keys, yet versions {:?} were accepted after {:?}", sc.v2, sc.v1)),
                Ok(_) => {}
                Err((Class::Rollback, _)) => {
                    o.probe("rollback_refused_without_rotation");
                    if !lower {
                        o.violate("forward-repository-locked-out", "versions not lower than the stored ones were refused as rollback");
                    }
                }
                Err((c, var)) => o.harness(format!("clean second cycle failed with {var} ({})", c.name())),
            }
        } else {
            o.inconclusive("keys added / threshold changed / rotated back: not judged");
        }
        if lower {
            if sc.v1.0 > 1000 {
                o.fault("fast_forwarded_timestamp_stored");
            }
            if sc.v1.1 > 1000 {
                o.fault("fast_forwarded_snapshot_stored");
            }
            if replaced {
                if (removed(&first.ts, &fin.ts) && still_verifies(&first.ts, &fin.ts)) || (removed(&first.snap, &fin.snap) && still_verifies(&first.snap, &fin.snap)) {
                    o.fault("keys_replaced_old_file_still_verifies");
                } else {
                    o.fault("keys_replaced_disjoint");
                }
            } else if !any_change_on_chain {
                o.fault("no_rotation_replay");
            }
        }
        o.nontrivial = lower;
        o
    }
}
