//! The foreign publisher: builds TUF role documents as JSON trees, canonicalises them with the
//! reference encoder and signs them with aws-lc-rs directly. It plays "another conforming
//! implementation" and can emit what tough's editor cannot (arbitrary signature lists, unknown
//! members, delegation cycles, chosen byte-level formatting).

use crate::json::{self, n, obj, s, Style, J};
use crate::keys::K;
use std::collections::HashMap;

/// Virtual epoch of every simulated world: 2030-01-01T00:00:00Z.
pub const T0: i64 = 1_893_456_000;

pub fn ts(secs: i64) -> String {
    chrono::DateTime::<chrono::Utc>::from_timestamp(secs, 0)
        .expect("timestamp in range")
        .format("%Y-%m-%dT%H:%M:%SZ")
        .to_string()
}

pub fn dt(secs: i64) -> chrono::DateTime<chrono::Utc> {
    chrono::DateTime::<chrono::Utc>::from_timestamp(secs, 0).expect("timestamp in range")
}

pub const FAR: i64 = T0 + 10 * 365 * 86400;

#[derive(Clone, Debug)]
pub struct RoleKeys {
    pub keys: Vec<K>,
    pub threshold: u64,
}

impl RoleKeys {
    pub fn one(k: &K) -> Self {
        RoleKeys { keys: vec![k.clone()], threshold: 1 }
    }
    pub fn ids(&self) -> Vec<String> {
        self.keys.iter().map(|k| k.id.clone()).collect()
    }
}

#[derive(Clone, Debug)]
pub struct RootSpec {
    pub version: u64,
    pub expires: i64,
    pub consistent_snapshot: bool,
    pub root: RoleKeys,
    pub timestamp: RoleKeys,
    pub snapshot: RoleKeys,
    pub targets: RoleKeys,
}

fn key_table(sets: &[&RoleKeys]) -> J {
    let mut seen: Vec<(String, J)> = Vec::new();
    for set in sets {
        for k in &set.keys {
            if !seen.iter().any(|(id, _)| id == &k.id) {
                seen.push((k.id.clone(), k.json.clone()));
            }
        }
    }
    J::Obj(seen)
}

fn role_keys_json(r: &RoleKeys) -> J {
    obj(vec![
        ("keyids", J::Arr(r.ids().into_iter().map(J::Str).collect())),
        ("threshold", n(r.threshold)),
    ])
}

impl RootSpec {
    pub fn signed(&self) -> J {
        obj(vec![
            ("_type", s("root")),
            ("consistent_snapshot", J::Bool(self.consistent_snapshot)),
            ("expires", J::Str(ts(self.expires))),
            ("keys", key_table(&[&self.root, &self.timestamp, &self.snapshot, &self.targets])),
            (
                "roles",
                obj(vec![
                    ("root", role_keys_json(&self.root)),
                    ("snapshot", role_keys_json(&self.snapshot)),
                    ("targets", role_keys_json(&self.targets)),
                    ("timestamp", role_keys_json(&self.timestamp)),
                ]),
            ),
            ("spec_version", s("1.0.0")),
            ("version", n(self.version)),
        ])
    }
}

#[derive(Clone, Debug, Default)]
pub struct Meta {
    pub version: u64,
    pub length: Option<u64>,
    pub sha256: Option<Vec<u8>>,
}

impl Meta {
    pub fn json(&self) -> J {
        let mut m = Vec::new();
        if let Some(h) = &self.sha256 {
            m.push(("hashes", obj(vec![("sha256", J::Str(hex::encode(h)))])));
        }
        if let Some(l) = self.length {
            m.push(("length", n(l)));
        }
        m.push(("version", n(self.version)));
        obj(m)
    }
    pub fn of(version: u64, bytes: &[u8], with_len: bool, with_hash: bool) -> Meta {
        Meta {
            version,
            length: if with_len { Some(bytes.len() as u64) } else { None },
            sha256: if with_hash { Some(json::sha256(bytes)) } else { None },
        }
    }
}

pub fn timestamp_signed(version: u64, expires: i64, snapshot: &Meta) -> J {
    obj(vec![
        ("_type", s("timestamp")),
        ("expires", J::Str(ts(expires))),
        ("meta", obj(vec![("snapshot.json", snapshot.json())])),
        ("spec_version", s("1.0.0")),
        ("version", n(version)),
    ])
}

pub fn snapshot_signed(version: u64, expires: i64, metas: &[(String, Meta)]) -> J {
    obj(vec![
        ("_type", s("snapshot")),
        ("expires", J::Str(ts(expires))),
        ("meta", J::Obj(metas.iter().map(|(k, m)| (k.clone(), m.json())).collect())),
        ("spec_version", s("1.0.0")),
        ("version", n(version)),
    ])
}

#[derive(Clone, Debug)]
pub struct TargetEntry {
    pub name: String,
    pub length: u64,
    pub sha256: Vec<u8>,
    pub custom: Option<J>,
}

impl TargetEntry {
    pub fn of(name: &str, content: &[u8]) -> Self {
        TargetEntry {
            name: name.to_string(),
            length: content.len() as u64,
            sha256: json::sha256(content),
            custom: None,
        }
    }
    pub fn json(&self) -> J {
        let mut m = Vec::new();
        if let Some(c) = &self.custom {
            m.push(("custom", c.clone()));
        }
        m.push(("hashes", obj(vec![("sha256", J::Str(hex::encode(&self.sha256)))])));
        m.push(("length", n(self.length)));
        obj(m)
    }
}

#[derive(Clone, Debug)]
pub enum Paths {
    Globs(Vec<String>),
    HashPrefixes(Vec<String>),
}

#[derive(Clone, Debug)]
pub struct DelegSpec {
    pub name: String,
    pub keys: RoleKeys,
    pub paths: Paths,
    pub terminating: bool,
}

pub fn delegations_json(roles: &[DelegSpec]) -> J {
    let sets: Vec<&RoleKeys> = roles.iter().map(|r| &r.keys).collect();
    let roles_json: Vec<J> = roles
        .iter()
        .map(|r| {
            let mut m = vec![
                ("keyids", J::Arr(r.keys.ids().into_iter().map(J::Str).collect())),
                ("name", J::Str(r.name.clone())),
            ];
            match &r.paths {
                Paths::Globs(g) => m.push(("paths", J::Arr(g.iter().map(|x| J::Str(x.clone())).collect()))),
                Paths::HashPrefixes(g) => {
                    m.push(("path_hash_prefixes", J::Arr(g.iter().map(|x| J::Str(x.clone())).collect())));
                }
            }
            m.push(("terminating", J::Bool(r.terminating)));
            m.push(("threshold", n(r.keys.threshold)));
            obj(m)
        })
        .collect();
    obj(vec![("keys", key_table(&sets)), ("roles", J::Arr(roles_json))])
}

pub fn targets_signed(version: u64, expires: i64, targets: &[TargetEntry], delegations: Option<&[DelegSpec]>) -> J {
    let mut m = vec![("_type", s("targets"))];
    if let Some(d) = delegations {
        m.push(("delegations", delegations_json(d)));
    }
    m.push(("expires", J::Str(ts(expires))));
    m.push(("spec_version", s("1.0.0")));
    m.push(("targets", J::Obj(targets.iter().map(|t| (t.name.clone(), t.json())).collect())));
    m.push(("version", n(version)));
    obj(m)
}

/// One entry of a signature list.
#[derive(Clone, Debug, PartialEq, Eq)]
pub struct SigEntry {
    pub keyid: String,
    pub sig: String,
}

/// A signed document (envelope): the signed portion as a tree plus its signature list.
#[derive(Clone, Debug)]
pub struct Doc {
    pub signed: J,
    pub sigs: Vec<SigEntry>,
}

pub fn sign_with(signed: &J, k: &K) -> SigEntry {
    let c = json::canon(signed).expect("signed portion canonicalises");
    SigEntry { keyid: k.id.clone(), sig: hex::encode(k.sign(&c)) }
}

impl Doc {
    pub fn signed_by(signed: J, keys: &[K]) -> Doc {
        let sigs = keys.iter().map(|k| sign_with(&signed, k)).collect();
        Doc { signed, sigs }
    }
    pub fn envelope(&self) -> J {
        obj(vec![
            (
                "signatures",
                J::Arr(
                    self.sigs
                        .iter()
                        .map(|e| obj(vec![("keyid", J::Str(e.keyid.clone())), ("sig", J::Str(e.sig.clone()))]))
                        .collect(),
                ),
            ),
            ("signed", self.signed.clone()),
        ])
    }
    pub fn bytes(&self) -> Vec<u8> {
        json::emit(&self.envelope(), Style::Compact)
    }
    pub fn bytes_styled(&self, style: Style) -> Vec<u8> {
        json::emit(&self.envelope(), style)
    }
    pub fn version(&self) -> u64 {
        self.signed.get("version").and_then(J::as_u64).unwrap_or(0)
    }
}

/// A conventional repository state produced by the foreign publisher: one root (plus optional
/// older roots), timestamp, snapshot, top-level targets, delegated roles; and the file maps that a
/// transport would serve.
#[derive(Clone, Debug)]
pub struct Files {
    pub meta: HashMap<String, Vec<u8>>,
    pub targets: HashMap<String, Vec<u8>>,
}

impl Files {
    pub fn new() -> Self {
        Files { meta: HashMap::new(), targets: HashMap::new() }
    }
}

impl Default for Files {
    fn default() -> Self {
        Self::new()
    }
}

/// percent-encode a role name the way the TUF reference implementation does
/// (urllib.parse.quote(name, safe="")): everything but ALPHA / DIGIT / "_.-~".
pub fn quote_role_name(name: &str) -> String {
    let mut out = String::new();
    for b in name.bytes() {
        if b.is_ascii_alphanumeric() || matches!(b, b'_' | b'.' | b'-' | b'~') {
            out.push(b as char);
        } else {
            out.push_str(&format!("%{b:02X}"));
        }
    }
    out
}
