//! Error classification (DESIGN §3.5): oracles put a failure into a class by matching on the
//! public `tough::error::Error` variants (and the causes carried inside transport errors).

use tough::error::Error;

#[derive(Clone, Copy, Debug, PartialEq, Eq, Hash)]
pub enum Class {
    Signature,
    Rollback,
    Expiry,
    Clock,
    Pin,
    Size,
    Path,
    Parse,
    Transport,
    Datastore,
    Other,
}

impl Class {
    pub fn name(self) -> &'static str {
        match self {
            Class::Signature => "signature",
            Class::Rollback => "rollback",
            Class::Expiry => "expiry",
            Class::Clock => "clock",
            Class::Pin => "pin",
            Class::Size => "size",
            Class::Path => "path",
            Class::Parse => "parse",
            Class::Transport => "transport",
            Class::Datastore => "datastore",
            Class::Other => "other",
        }
    }
}

fn inner_class(e: &(dyn std::error::Error + 'static)) -> Option<Class> {
    let mut cur: Option<&(dyn std::error::Error + 'static)> = Some(e);
    while let Some(c) = cur {
        if let Some(te) = c.downcast_ref::<Error>() {
            match te {
                Error::HashMismatch { .. } => return Some(Class::Pin),
                Error::MaxSizeExceeded { .. } => return Some(Class::Size),
                _ => {}
            }
        }
        cur = c.source();
    }
    None
}

pub fn classify(e: &Error) -> Class {
    match e {
        Error::VerifyMetadata { .. } | Error::VerifyTrustedMetadata { .. } | Error::VerifyRoleMetadata { .. } => {
            Class::Signature
        }
        Error::OlderMetadata { .. } => Class::Rollback,
        Error::ExpiredMetadata { .. } => Class::Expiry,
        Error::SystemTimeSteppedBackward { .. } => Class::Clock,
        Error::VersionMismatch { .. } | Error::MetaMissing { .. } | Error::RoleNotInMeta { .. } => Class::Pin,
        Error::HashMismatch { .. } => Class::Pin,
        Error::MaxSizeExceeded { .. } | Error::MaxUpdatesExceeded { .. } => Class::Size,
        Error::InvalidPath { .. }
        | Error::SaveTargetUnsafePath { .. }
        | Error::UnsafeTargetNameDotDot { .. }
        | Error::UnsafeTargetNameEmpty { .. }
        | Error::UnsafeTargetNameSlash { .. }
        | Error::SaveTargetNoParent { .. } => Class::Path,
        Error::ParseMetadata { .. } | Error::ParseTrustedMetadata { .. } => Class::Parse,
        Error::Transport { source, .. } => {
            inner_class(source as &(dyn std::error::Error + 'static)).unwrap_or(Class::Transport)
        }
        Error::DatastoreCreate { .. }
        | Error::DatastoreInit { .. }
        | Error::DatastoreOpen { .. }
        | Error::DatastoreRemove { .. }
        | Error::DatastoreSerialize { .. } => Class::Datastore,
        _ => Class::Other,
    }
}

/// Short, stable description of an error for traces (variant name only: messages contain paths).
pub fn variant(e: &Error) -> String {
    let d = format!("{e:?}");
    let end = d.find(|c: char| !(c.is_alphanumeric() || c == '_')).unwrap_or(d.len());
    d[..end].to_string()
}
