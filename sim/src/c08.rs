//! C08 — saving a target is atomic, verified-only and confined to the output directory.
//! An observer scans the sandbox at every poll of the target stream (between any two chunks).

use crate::classify::{classify, variant, Class};
use crate::engine::{block_on, drain_blocking, Check, Outcome, Scratch, Tier};
use crate::json;
use crate::prng::{mix, Rng};
use crate::transport::{Base, ErrKind, Event, Resp, SimTransport, Step};
use crate::world::{self, RepoSpec};
use serde::{Deserialize, Serialize};
use serde_json::{json, Value};
use std::collections::BTreeMap;
use std::path::{Path, PathBuf};
use std::sync::{Arc, Mutex};
use tough::{Prefix, TargetName};

const ALPHABET: [char; 8] = ['a', 'b', '.', '/', '\\', ' ', '%', '~'];

#[derive(Clone, Debug, Serialize, Deserialize)]
pub struct Sc {
    pub world: u64,
    pub consistent: bool,
    pub name: String,
    pub size: usize,
    pub content_seed: u64,
    pub chunks: Vec<usize>,
    pub pendings: Vec<usize>,
    pub prefix_digest: bool,
    pub preexisting: bool,
}

pub struct C08;

fn n_enumerated_names() -> u64 {
    (1..=5).map(|l| 8u64.pow(l)).sum()
}

fn name_of(mut i: u64) -> String {
    let mut len = 1u32;
    loop {
        let block = 8u64.pow(len);
        if i < block {
            break;
        }
        i -= block;
        len += 1;
    }
    let mut s = String::new();
    for _ in 0..len {
        s.push(ALPHABET[(i % 8) as usize]);
        i /= 8;
    }
    s
}

/// Independent model of name resolution: (is absolute, cleaned path) or None if the name is unusable.
fn model_resolve(name: &str) -> Option<(bool, String)> {
    if name.is_empty() || name == ".." {
        return None;
    }
    let abs = name.starts_with('/');
    let mut segs: Vec<&str> = Vec::new();
    for s in name.split('/') {
        match s {
            "" | "." => {}
            ".." => {
                segs.pop();
            }
            x => segs.push(x),
        }
    }
    if segs.is_empty() {
        return None;
    }
    Some((abs, segs.join("/")))
}

#[derive(Clone, Debug, PartialEq, Eq)]
enum Ent {
    Dir,
    File(u64, u64),
    Other,
}

fn scan(root: &Path) -> BTreeMap<String, Ent> {
    fn walk(base: &Path, dir: &Path, out: &mut BTreeMap<String, Ent>) {
        let Ok(rd) = std::fs::read_dir(dir) else { return };
        for e in rd.flatten() {
            let p = e.path();
            let rel = p.strip_prefix(base).unwrap().to_string_lossy().to_string();
            match std::fs::symlink_metadata(&p) {
                Ok(m) if m.is_dir() => {
                    out.insert(rel, Ent::Dir);
                    walk(base, &p, out);
                }
                Ok(m) if m.is_file() => {
                    let h = std::fs::read(&p).map(|b| crate::prng::hash_bytes(&b)).unwrap_or(0);
                    out.insert(rel, Ent::File(m.len(), h));
                }
                _ => {
                    out.insert(rel, Ent::Other);
                }
            }
        }
    }
    let mut out = BTreeMap::new();
    walk(root, root, &mut out);
    out
}

fn files_only(t: &BTreeMap<String, Ent>) -> BTreeMap<String, Ent> {
    t.iter().filter(|(_, e)| !matches!(e, Ent::Dir)).map(|(k, v)| (k.clone(), v.clone())).collect()
}

#[derive(Clone, Debug)]
enum Delivery {
    Clean,
    BitFlip(usize),
    Oversize(usize),
    ErrorAt(usize),
    /// the caller abandons the operation (drops the future) when the stream is about to deliver
    /// chunk k (k = number of chunks: after the last one, before the end of stream)
    CancelAt(usize),
}

impl Check for C08 {
    type Scenario = Sc;
    fn id(&self) -> &'static str {
        "C08"
    }
    fn level(&self) -> &'static str {
        "fault_enumeration"
    }
    fn rule(&self) -> String {
        "target names over {a b . / \\ space % ~}: enumerated to length 5 (thorough: all 37448; quick: every 5th) plus seeded names to length 40, a tenth of them absolute paths that share a string prefix with the output directory (<out>-old/f, <out>2/a/b, <out>/../sibling/x, ...); per name: size, chunking, prefix mode, pre-existing destination file are seeded; within a run EVERY failure position is enumerated (bit flip, oversize, transport error before chunk k for every k, the caller abandoning the operation before chunk k for every k) followed by the clean delivery, and an observer scans the whole sandbox at every poll of the target stream; non-trivial = the name was accepted at load and at least one failing delivery was pulled; distinct = distinct canonical trace".into()
    }
    fn assumptions(&self) -> Vec<String> {
        vec![
            "the destination path is predicted by an independent path model (split on '/', drop '.', pop on '..'); the observer looks at that path and at the whole sandbox tree".into(),
            "the transport serves the scripted stream for any target URL, so no URL-syntax model is needed".into(),
            "real file system, no disk faults (those are C15's engine)".into(),
        ]
    }
    fn components(&self) -> Value {
        json!({"real": ["tough save_target (path checks, NamedTempFile, persist)", "TargetName", "read_target adapters", "real file system in a scratch sandbox"], "stub": ["transport (SimTransport with poll hook = observer)", "foreign publisher"]})
    }
    fn enumerated(&self, tier: Tier) -> u64 {
        match tier {
            Tier::Quick => n_enumerated_names() / 5,
            Tier::Thorough => n_enumerated_names(),
        }
    }
    fn exhaustive(&self, tier: Tier) -> bool {
        tier == Tier::Thorough
    }
    fn enumerate(&self, index: u64, tier: Tier) -> Option<Sc> {
        let ni = match tier {
            Tier::Quick => index * 5 + (index % 5),
            Tier::Thorough => index,
        };
        let mut r = Rng::new(mix(0xC08, ni));
        let size = r.usize_below(40);
        Some(Sc {
            world: ni % 997,
            consistent: r.chance(1, 2),
            name: name_of(ni.min(n_enumerated_names() - 1)),
            size,
            content_seed: ni,
            chunks: (0..r.usize_below(3)).map(|_| 1 + r.usize_below(size.max(1))).collect(),
            pendings: if r.chance(1, 4) { vec![r.usize_below(3)] } else { vec![] },
            prefix_digest: r.chance(1, 2),
            preexisting: r.chance(1, 2),
        })
    }
    fn runs(&self, tier: Tier) -> u64 {
        match tier {
            Tier::Quick => 2_000,
            Tier::Thorough => 200_000,
        }
    }
    fn generate(&self, seed: u64, _tier: Tier) -> Sc {
        let mut r = Rng::new(seed);
        let len = 1 + r.usize_below(40);
        let mut name = String::new();
        for _ in 0..len {
            // bias towards letters so that long names stay plausible paths
            name.push(if r.chance(1, 2) { *r.pick(&['a', 'b']) } else { *r.pick(&ALPHABET) });
        }
        if r.chance(1, 8) {
            name = format!("{}/../../{}", &name[..len / 2], &name[len / 2..]);
        }
        if r.chance(1, 10) {
            name = format!("@OUT@{}", r.pick(&["-old/f", "2/a/b", "box/x.bin", ".bak", "/../out-old/f", "/../sibling/x", "/./inside"]));
        }
        let size = if r.chance(1, 2) { r.usize_below(200) } else { r.usize_below(16 * 1024) };
        let chunks = r.chunking(size);
        let chunks: Vec<usize> = chunks.into_iter().take(12).collect();
        Sc {
            world: r.below(997),
            consistent: r.chance(1, 2),
            name,
            size,
            content_seed: r.next_u64(),
            pendings: if r.chance(1, 3) { vec![r.usize_below(chunks.len() + 1)] } else { vec![] },
            chunks,
            prefix_digest: r.chance(1, 2),
            preexisting: r.chance(1, 2),
        }
    }
    fn shrink(&self, sc: &Sc) -> Vec<Sc> {
        let mut v = Vec::new();
        if !sc.pendings.is_empty() {
            v.push(Sc { pendings: vec![], ..sc.clone() });
        }
        if !sc.chunks.is_empty() {
            v.push(Sc { chunks: vec![], ..sc.clone() });
        }
        if sc.size > 3 {
            v.push(Sc { size: 3, chunks: vec![1], ..sc.clone() });
        }
        if sc.consistent {
            v.push(Sc { consistent: false, ..sc.clone() });
        }
        if sc.preexisting {
            v.push(Sc { preexisting: false, ..sc.clone() });
        }
        let chars: Vec<char> = sc.name.chars().collect();
        for i in 0..chars.len() {
            if chars.len() > 1 {
                let mut c = chars.clone();
                c.remove(i);
                v.push(Sc { name: c.into_iter().collect(), ..sc.clone() });
            }
        }
        v
    }
    fn required_faults(&self, _t: Tier) -> Vec<&'static str> {
        vec!["corrupted_delivery", "oversize_delivery", "transport_error_at_chunk", "operation_abandoned_mid_transfer", "observation_between_chunks", "preexisting_destination", "name_with_dotdot", "absolute_name", "name_with_backslash", "absolute_name_sharing_a_prefix_with_outdir"]
    }
    fn required_probes(&self, _t: Tier) -> Vec<&'static str> {
        vec!["saved_and_verified", "failed_attempt_left_tree_unchanged", "abandoned_attempt_left_tree_unchanged", "name_rejected_at_load", "escape_refused"]
    }
    fn sample(&self, sc: &Sc) -> Value {
        json!({"name": sc.name, "size": sc.size, "chunks": sc.chunks, "pendings": sc.pendings, "prefix_digest": sc.prefix_digest, "preexisting": sc.preexisting, "consistent": sc.consistent})
    }
    fn run(&self, sc: &Sc) -> Outcome {
        let mut o = Outcome::new();
        let body = Rng::new(sc.content_seed).bytes(sc.size);
        let scratch = Scratch::new();
        let sbox = scratch.dir("S");
        let out = sbox.join("out");
        std::fs::create_dir_all(&out).unwrap();
        std::fs::create_dir_all(sbox.join("sibling")).unwrap();
        std::fs::write(sbox.join("canary.txt"), b"canary").unwrap();
        std::fs::write(sbox.join("sibling").join("canary.txt"), b"sibling canary").unwrap();
        let out = std::fs::canonicalize(&out).unwrap();
        let sbox = std::fs::canonicalize(&sbox).unwrap();
        // "@OUT@" in a scenario's name stands for the absolute path of the output directory, which
        // only exists now: names such as "<out>-old/f" are absolute paths that merely *start with
        // the same characters* as the output directory (the trace keeps the placeholder)
        let name: String = sc.name.replace("@OUT@", &out.to_string_lossy());
        if sc.name.contains("@OUT@") {
            o.fault("absolute_name_sharing_a_prefix_with_outdir");
        }
        let mut spec = RepoSpec::basic(sc.world, sc.consistent);
        spec.add_target(&name, &body);
        let built = world::build(&spec);
        let hexd = json::sha256_hex(&body);
        o.ev(format!("cfg name={:?} size={} chunks={:?} pend={:?} digest_prefix={} pre={} consistent={}", sc.name, sc.size, sc.chunks, sc.pendings, sc.prefix_digest, sc.preexisting, sc.consistent));


        // ---- model of the destination
        let model = model_resolve(&name);
        let dest: Option<PathBuf> = model.as_ref().map(|(abs, res)| {
            let full = if *abs { format!("/{res}") } else { res.clone() };
            let rel = if sc.prefix_digest { format!("{hexd}.{full}") } else { full };
            if rel.starts_with('/') { PathBuf::from(rel) } else { out.join(rel) }
        });
        let dest_inside = dest.as_ref().is_some_and(|d| d.starts_with(&out));
        let outside_watch: Option<PathBuf> = dest.clone().filter(|d| !d.starts_with(&sbox));
        if let Some(w) = &outside_watch {
            if std::fs::symlink_metadata(w).is_ok() {
                o.inconclusive("predicted escape path already exists on this host");
                return o;
            }
        }
        if name.contains("..") {
            o.fault("name_with_dotdot");
        }
        if name.starts_with('/') {
            o.fault("absolute_name");
        }
        if name.contains('\\') {
            o.fault("name_with_backslash");
        }

        // ---- load
        let script: Arc<Mutex<Vec<Step>>> = Arc::new(Mutex::new(Vec::new()));
        let violations: Arc<Mutex<Vec<(String, String)>>> = Arc::new(Mutex::new(Vec::new()));
        let observations: Arc<Mutex<u64>> = Arc::new(Mutex::new(0));
        let baseline: Arc<Mutex<BTreeMap<String, Ent>>> = Arc::new(Mutex::new(BTreeMap::new()));
        let meta = built.files.meta.clone();
        let script2 = script.clone();
        let (viol2, obs2, base2) = (violations.clone(), observations.clone(), baseline.clone());
        let (sbox2, out2, dest2, watch2) = (sbox.clone(), out.clone(), dest.clone(), outside_watch.clone());
        let body_h = crate::prng::hash_bytes(&body);
        let body_len = body.len() as u64;
        let observe = move |when: &str| {
            let tree = scan(&sbox2);
            let base = base2.lock().unwrap().clone();
            let mut v = viol2.lock().unwrap();
            // (i) nothing outside out/ is created or modified
            let out_rel = out2.strip_prefix(&sbox2).unwrap().to_string_lossy().to_string();
            let outside = |t: &BTreeMap<String, Ent>| -> BTreeMap<String, Ent> {
                t.iter().filter(|(k, _)| !(k.as_str() == out_rel || k.starts_with(&format!("{out_rel}/")))).map(|(k, e)| (k.clone(), e.clone())).collect()
            };
            if outside(&tree) != outside(&base) {
                v.push(("write-outside-outdir".into(), format!("{when}: sandbox outside out/ changed: {:?} -> {:?}", outside(&base), outside(&tree))));
            }
            if let Some(w) = &watch2 {
                if std::fs::symlink_metadata(w).is_ok() {
                    v.push(("write-outside-outdir".into(), format!("{when}: {} was created outside the sandbox", w.display())));
                }
            }
            // (ii) the destination is absent, the pre-existing file, or the complete signed content
            if let Some(d) = &dest2 {
                if let Ok(rel) = d.strip_prefix(&sbox2) {
                    let rel = rel.to_string_lossy().to_string();
                    match tree.get(&rel) {
                        None => {}
                        Some(e) => {
                            let pre = base.get(&rel);
                            let complete = *e == Ent::File(body_len, body_h);
                            if Some(e) != pre && !complete {
                                v.push(("partial-or-unverified-content-at-destination".into(), format!("{when}: destination holds {e:?}, pre-existing {pre:?}, signed content is File({body_len},{body_h})")));
                            }
                        }
                    }
                }
            }
            *obs2.lock().unwrap() += 1;
        };
        let observe = Arc::new(observe);
        let obs_hook = observe.clone();
        let cancel_step: Arc<Mutex<Option<usize>>> = Arc::new(Mutex::new(None));
        let cancel = Arc::new(tokio::sync::Notify::new());
        let (cancel_step2, cancel2) = (cancel_step.clone(), cancel.clone());
        let transport = SimTransport::with_hook(
            move |r| match r.base {
                Base::Metadata => meta.get(&r.rel).map_or(Resp::not_found(), |b| Resp::whole(b)),
                _ => Resp::Body(script2.lock().unwrap().clone()),
            },
            move |ev| {
                if let Event::Poll { rel, step, .. } = ev {
                    if !rel.ends_with(".json") {
                        (*obs_hook)(&format!("poll before step {step}"));
                        if *cancel_step2.lock().unwrap() == Some(step) {
                            cancel2.notify_one();
                        }
                    }
                }
            },
        );
        let shipped = built.root.bytes();
        let t2 = transport.clone();
        let repo = match block_on(async move { world::load(&shipped, t2, None, world::LoadOpts::default()).await }) {
            Ok(r) => r,
            Err(e) => {
                let c = classify(&e);
                o.ev(format!("load failed {} {}", c.name(), variant(&e)));
                if model.is_some() && c != Class::Parse {
                    o.harness(format!("load failed with {} for a name the model accepts", variant(&e)));
                } else {
                    o.probe("name_rejected_at_load");
                    if model.is_some() {
                        // stricter than the model: allowed (the property is satisfied trivially)
                        o.probe("name_rejected_though_model_accepts");
                    }
                }
                return o;
            }
        };
        if model.is_none() {
            o.violate("unusable-name-accepted", format!("the name {:?} resolves to nothing but was accepted", name));
            return o;
        }
        let tn = TargetName::new(name.clone()).expect("name accepted at load");
        let prefix = if sc.prefix_digest { Prefix::Digest } else { Prefix::None };

        // ---- pre-existing file at the destination
        if sc.preexisting && dest_inside {
            let d = dest.as_ref().unwrap();
            if let Some(p) = d.parent() {
                std::fs::create_dir_all(p).unwrap();
            }
            if std::fs::write(d, b"previous file content").is_ok() {
                o.fault("preexisting_destination");
            }
        }

        // ---- chunking of the served bytes
        let steps_for = |served: &[u8], error_at: Option<usize>| -> Vec<Step> {
            let mut lens = Vec::new();
            let mut at = 0;
            for l in &sc.chunks {
                if at >= served.len() {
                    break;
                }
                let e = (at + l).min(served.len());
                lens.push(e - at);
                at = e;
            }
            if at < served.len() || lens.is_empty() {
                lens.push(served.len() - at);
            }
            let mut steps = Vec::new();
            let mut at = 0;
            for (i, l) in lens.iter().enumerate() {
                if sc.pendings.contains(&i) {
                    steps.push(Step::Pending);
                }
                if error_at == Some(i) {
                    steps.push(Step::Error(ErrKind::Other));
                    return steps;
                }
                steps.push(Step::Data(served[at..at + l].to_vec()));
                at += l;
            }
            if let Some(k) = error_at {
                if k >= lens.len() {
                    steps.push(Step::Error(ErrKind::Other));
                }
            }
            steps
        };
        let n_chunks = steps_for(&body, None).iter().filter(|s| matches!(s, Step::Data(_))).count();
        let mut deliveries: Vec<Delivery> = Vec::new();
        if !body.is_empty() {
            deliveries.push(Delivery::BitFlip((sc.content_seed as usize) % (body.len() * 8)));
        }
        deliveries.push(Delivery::Oversize(1 + (sc.content_seed as usize) % 9));
        for k in 0..=n_chunks {
            deliveries.push(Delivery::ErrorAt(k));
        }
        for k in 0..=n_chunks {
            deliveries.push(Delivery::CancelAt(k));
        }
        deliveries.push(Delivery::Clean);

        let mut pulled_failure = false;
        for d in &deliveries {
            let steps = match d {
                Delivery::Clean => steps_for(&body, None),
                Delivery::BitFlip(p) => {
                    let mut b = body.clone();
                    b[p / 8] ^= 1 << (p % 8);
                    steps_for(&b, None)
                }
                Delivery::Oversize(n) => {
                    let mut b = body.clone();
                    b.extend(std::iter::repeat(b'Z').take(*n));
                    steps_for(&b, None)
                }
                Delivery::ErrorAt(k) => steps_for(&body, Some(*k)),
                Delivery::CancelAt(k) => {
                    // a Pending step marks the point of abandonment: the stream reports "not ready",
                    // the operation yields, and the caller drops it
                    let mut st = steps_for(&body, None);
                    let mut seen = 0;
                    let mut at = st.len();
                    for (i, x) in st.iter().enumerate() {
                        if matches!(x, Step::Data(_)) {
                            if seen == *k {
                                at = i;
                                break;
                            }
                            seen += 1;
                        }
                    }
                    st.insert(at, Step::Pending);
                    *cancel_step.lock().unwrap() = Some(at);
                    st
                }
            };
            if !matches!(d, Delivery::CancelAt(_)) {
                *cancel_step.lock().unwrap() = None;
            }
            *script.lock().unwrap() = steps;
            let before = scan(&sbox);
            *baseline.lock().unwrap() = before.clone();
            let reqs_before = transport.requests();
            let res = block_on(async {
                tokio::select! {
                    biased;
                    () = cancel.notified() => None,
                    r = repo.save_target(&tn, &out, prefix) => Some(r),
                }
            });
            let Some(res) = res else {
                // abandoned: let everything the operation had handed to the blocking pool finish
                drain_blocking();
                (*observe)("after the operation was abandoned");
                let after = scan(&sbox);
                o.ev(format!("{d:?} -> abandoned"));
                o.fault("operation_abandoned_mid_transfer");
                if files_only(&after) != files_only(&before) {
                    o.violate(
                        "abandoned-save-changed-files",
                        format!("delivery {d:?}: files before {:?}, after {:?}", files_only(&before), files_only(&after)),
                    );
                } else {
                    o.probe("abandoned_attempt_left_tree_unchanged");
                }
                continue;
            };
            (*observe)("after return");
            let after = scan(&sbox);
            let pulled = transport.log().iter().skip(reqs_before).any(|l| l.steps_pulled > 0);
            o.ev(format!("{d:?} -> {:?} pulled={pulled}", res.as_ref().map_err(|e| (classify(e).name(), variant(e)))));
            match (&res, d) {
                (Ok(()), Delivery::Clean) => {
                    // (iv) the destination holds exactly the signed bytes
                    let ok = dest.as_ref().is_some_and(|p| std::fs::read(p).is_ok_and(|b| b == body));
                    if !dest_inside {
                        o.violate("escaping-name-saved", format!("save_target succeeded for {:?}; model destination {:?}", name, dest));
                    } else if !ok {
                        o.violate("saved-file-differs-from-signed-content", format!("after a successful save {:?} does not hold the signed bytes", dest));
                    } else {
                        o.probe("saved_and_verified");
                    }
                    // nothing else may have appeared
                    let mut expect = files_only(&before);
                    if let Some(rel) = dest.as_ref().and_then(|p| p.strip_prefix(&sbox).ok()) {
                        expect.insert(rel.to_string_lossy().to_string(), Ent::File(body_len, body_h));
                    }
                    if dest_inside && files_only(&after) != expect {
                        o.violate("stray-files-after-save", format!("files after save {:?}, expected {:?}", files_only(&after), expect));
                    }
                }
                (Ok(()), _) => {
                    o.violate(format!("unverified-delivery-saved:{}", delivery_name(d)), format!("save_target reported success for delivery {d:?}"));
                }
                (Err(e), Delivery::Clean) => {
                    if dest_inside && benign(&name) {
                        o.violate("benign-name-refused", format!("clean delivery of {:?} failed with {} (model destination {:?})", name, variant(e), dest));
                    } else {
                        o.probe("escape_refused");
                    }
                    if files_only(&after) != files_only(&before) {
                        o.violate("failed-save-changed-files", format!("{:?} -> {:?}", files_only(&before), files_only(&after)));
                    }
                }
                (Err(_), _) => {
                    // (iii) a failed attempt leaves every regular file as it was
                    if files_only(&after) != files_only(&before) {
                        o.violate(
                            format!("failed-save-changed-files:{}", delivery_name(d)),
                            format!("delivery {d:?}: files before {:?}, after {:?}", files_only(&before), files_only(&after)),
                        );
                    } else if pulled {
                        o.probe("failed_attempt_left_tree_unchanged");
                    }
                    if pulled {
                        pulled_failure = true;
                        o.fault(match d {
                            Delivery::BitFlip(_) => "corrupted_delivery",
                            Delivery::Oversize(_) => "oversize_delivery",
                            _ => "transport_error_at_chunk",
                        });
                    }
                }
            }
            // clean up anything a broken containment check created outside the sandbox
            if let Some(w) = &outside_watch {
                if std::fs::symlink_metadata(w).is_ok() {
                    let _ = std::fs::remove_file(w);
                    let mut p = w.parent();
                    while let Some(dir) = p {
                        if dir == Path::new("/") || std::fs::remove_dir(dir).is_err() {
                            break;
                        }
                        p = dir.parent();
                    }
                }
            }
        }
        let n_obs = *observations.lock().unwrap();
        o.fault_n("observation_between_chunks", n_obs);
        if let Some((k, d)) = violations.lock().unwrap().first().cloned() {
            o.violate(k, d);
        }
        o.nontrivial = pulled_failure;
        o
    }
}

/// Names for which a clean save must succeed: plain segments separated by single slashes.
fn benign(name: &str) -> bool {
    !name.is_empty()
        && name.split('/').all(|seg| !seg.is_empty() && seg != "." && seg != ".." && seg.chars().all(|c| matches!(c, 'a' | 'b' | '.' | '~')))
}

fn delivery_name(d: &Delivery) -> &'static str {
    match d {
        Delivery::Clean => "clean",
        Delivery::BitFlip(_) => "bit-flip",
        Delivery::Oversize(_) => "oversize",
        Delivery::ErrorAt(_) => "transport-error",
        Delivery::CancelAt(_) => "abandoned",
    }
}
