//! C12 — signatures bind all content the client uses; roles cannot be swapped; documents of
//! another conforming implementation (extra members, reference canonical form) still verify.

use crate::classify::{classify, variant, Class};
use crate::engine::{block_on, Check, Outcome, Tier};
use crate::json::{self, n, obj, s, Style, J};
use crate::keys;
use crate::prng::Rng;
use crate::publisher::*;
use crate::transport::{Base, Resp, SimTransport};
use serde::{Deserialize, Serialize};
use serde_json::{json, Value};

#[derive(Clone, Copy, Debug, Serialize, Deserialize, PartialEq, Eq)]
pub enum RoleT {
    Root,
    Timestamp,
    Snapshot,
    Targets,
    Delegated,
}
const ROLES: [RoleT; 5] = [RoleT::Root, RoleT::Timestamp, RoleT::Snapshot, RoleT::Targets, RoleT::Delegated];

#[derive(Clone, Debug, Serialize, Deserialize, PartialEq)]
pub enum Mutation {
    None,
    Reorder,
    Whitespace,
    JunkSignature,
    /// a non-verifying entry under the signer's own key id placed in front of the genuine one (a
    /// stale signature left by a tool that appends, or clutter added in flight)
    StaleSignatureFirst,
    /// change the scalar at the n-th scalar position of the signed portion
    Scalar(usize),
    /// insert a new member into the n-th object of the signed portion
    Insert(usize),
    /// delete the n-th member (counted over all objects) of the signed portion
    Delete(usize),
    /// duplicate the n-th member; the copy carries another value iff `changed`; appended or prepended
    Duplicate { member: usize, changed: bool, front: bool },
    /// rewrite `_type`
    TypeTag(String),
    /// next to the n-th member insert a sibling whose name differs from it only by a character that
    /// canonical JSON escapes (backslash or quote), carrying a changed value
    InsertConfusable { member: usize, variant: u8, front: bool },
    /// serve this role's document where the other of {timestamp, snapshot} is expected
    RoleSwap,
}

#[derive(Clone, Debug, Serialize, Deserialize)]
pub struct Sc {
    pub world: u64,
    pub consistent: bool,
    pub role: RoleT,
    /// struct-like object of the signed portion (index into the list of injectable levels) that
    /// receives the unknown members; None = no extras
    pub extra_level: Option<usize>,
    pub extra_names: Vec<String>,
    /// give the targets documents names such as "data" and "data 2" (prefix-ordered keys)
    pub tricky_target_names: bool,
    pub mutation: Mutation,
    /// the publisher spells key identifiers in upper-case hex where they are member names (the
    /// `keys` tables of both roots and of the delegations): same identifiers, another spelling, and
    /// the signatures are over that spelling
    #[serde(default)]
    pub upper_keyids: bool,
}

pub struct C12;

const EXTRA_NAMES: [&str; 12] = ["x-extra", "zz", "a b", "a!", "a", "q\"uote", "back\\slash", "é", "aA", "a\"", "custom-field", "_x"];

fn name_class(names: &[String], tricky: bool) -> &'static str {
    let escapes = names.iter().any(|n| n.contains('"') || n.contains('\\'));
    // a key that is a proper prefix of another key whose next character sorts below '"'
    let prefix = |all: &[String]| all.iter().any(|a| all.iter().any(|b| b.len() > a.len() && b.starts_with(a.as_str()) && b.as_bytes()[a.len()] < b'"'));
    if escapes || prefix(names) || tricky {
        "escape-or-prefix-ordered-keys"
    } else {
        "plain-keys"
    }
}

/// Struct-like objects of a signed portion that may legitimately carry unknown members.
/// Returns (json pointer as key path, class name).
fn levels(signed: &J) -> Vec<(Vec<String>, &'static str)> {
    let mut out: Vec<(Vec<String>, &'static str)> = vec![(vec![], "signed-top-level")];
    let ty = signed.get("_type").and_then(J::as_str).unwrap_or("");
    if let Some(meta) = signed.get("meta") {
        for (k, v) in meta.members() {
            out.push((vec!["meta".into(), k.clone()], "meta-entry"));
            if v.get("hashes").is_some() {
                out.push((vec!["meta".into(), k.clone(), "hashes".into()], "hashes"));
            }
        }
    }
    if ty == "targets" {
        if let Some(t) = signed.get("targets") {
            for (k, v) in t.members() {
                out.push((vec!["targets".into(), k.clone()], "target-entry"));
                out.push((vec!["targets".into(), k.clone(), "hashes".into()], "hashes"));
                if v.get("custom").is_some() {
                    out.push((vec!["targets".into(), k.clone(), "custom".into()], "custom"));
                }
            }
        }
        if let Some(d) = signed.get("delegations") {
            out.push((vec!["delegations".into()], "delegations"));
            for (i, _) in d.get("roles").map(J::items).unwrap_or(&[]).iter().enumerate() {
                out.push((vec!["delegations".into(), "roles".into(), i.to_string()], "delegated-role-entry"));
            }
        }
    }
    if ty == "root" {
        if let Some(r) = signed.get("roles") {
            for (k, _) in r.members() {
                out.push((vec!["roles".into(), k.clone()], "root-role-entry"));
            }
        }
    }
    out
}

fn at_mut<'a>(j: &'a mut J, path: &[String]) -> Option<&'a mut J> {
    let mut cur = j;
    for p in path {
        cur = match cur {
            J::Obj(_) => cur.get_mut(p)?,
            J::Arr(a) => a.get_mut(p.parse::<usize>().ok()?)?,
            _ => return None,
        };
    }
    Some(cur)
}

/// Pre-order walk collecting mutable handles is awkward in Rust; instead mutate by counting.
fn mutate_scalar(j: &mut J, counter: &mut usize, target: usize) -> bool {
    match j {
        J::Obj(m) => {
            for (_, v) in m.iter_mut() {
                if mutate_scalar(v, counter, target) {
                    return true;
                }
            }
            false
        }
        J::Arr(a) => {
            for v in a.iter_mut() {
                if mutate_scalar(v, counter, target) {
                    return true;
                }
            }
            false
        }
        scalar => {
            if *counter == target {
                *scalar = match scalar {
                    J::Null => J::Int(0),
                    J::Bool(b) => J::Bool(!*b),
                    J::Int(i) => J::Int(i.wrapping_add(1)),
                    J::Str(st) => {
                        // keep the shape plausible: flip the last character
                        let mut c: Vec<char> = st.chars().collect();
                        match c.last_mut() {
                            Some(l) => *l = if *l == '0' { '1' } else if *l == 'a' { 'b' } else if *l == 'Z' { 'Y' } else { '0' },
                            None => c.push('x'),
                        }
                        J::Str(c.into_iter().collect())
                    }
                    _ => unreachable!(),
                };
                return true;
            }
            *counter += 1;
            false
        }
    }
}

fn count_scalars(j: &J) -> usize {
    match j {
        J::Obj(m) => m.iter().map(|(_, v)| count_scalars(v)).sum(),
        J::Arr(a) => a.iter().map(count_scalars).sum(),
        _ => 1,
    }
}

fn count_objects(j: &J) -> usize {
    match j {
        J::Obj(m) => 1 + m.iter().map(|(_, v)| count_objects(v)).sum::<usize>(),
        J::Arr(a) => a.iter().map(count_objects).sum(),
        _ => 0,
    }
}

fn count_members(j: &J) -> usize {
    match j {
        J::Obj(m) => m.len() + m.iter().map(|(_, v)| count_members(v)).sum::<usize>(),
        J::Arr(a) => a.iter().map(count_members).sum(),
        _ => 0,
    }
}

fn with_object(j: &mut J, counter: &mut usize, target: usize, f: &mut dyn FnMut(&mut Vec<(String, J)>)) -> bool {
    match j {
        J::Obj(m) => {
            if *counter == target {
                f(m);
                return true;
            }
            *counter += 1;
            for (_, v) in m.iter_mut() {
                if with_object(v, counter, target, f) {
                    return true;
                }
            }
            false
        }
        J::Arr(a) => {
            for v in a.iter_mut() {
                if with_object(v, counter, target, f) {
                    return true;
                }
            }
            false
        }
        _ => false,
    }
}

/// Apply `f(members, index)` to the object holding the n-th member (pre-order over all objects).
fn with_member(j: &mut J, counter: &mut usize, target: usize, f: &mut dyn FnMut(&mut Vec<(String, J)>, usize)) -> bool {
    match j {
        J::Obj(m) => {
            if target >= *counter && target < *counter + m.len() {
                let i = target - *counter;
                f(m, i);
                return true;
            }
            *counter += m.len();
            for (_, v) in m.iter_mut() {
                if with_member(v, counter, target, f) {
                    return true;
                }
            }
            false
        }
        J::Arr(a) => {
            for v in a.iter_mut() {
                if with_member(v, counter, target, f) {
                    return true;
                }
            }
            false
        }
        _ => false,
    }
}

/// Remove duplicate members keeping the first (or the last) occurrence, recursively.
fn dedupe(j: &J, keep_first: bool) -> J {
    match j {
        J::Obj(m) => {
            let mut out: Vec<(String, J)> = Vec::new();
            let it: Box<dyn Iterator<Item = &(String, J)>> = if keep_first { Box::new(m.iter()) } else { Box::new(m.iter().rev()) };
            for (k, v) in it {
                if !out.iter().any(|(kk, _)| kk == k) {
                    out.push((k.clone(), dedupe(v, keep_first)));
                }
            }
            J::Obj(out)
        }
        J::Arr(a) => J::Arr(a.iter().map(|x| dedupe(x, keep_first)).collect()),
        x => x.clone(),
    }
}

fn upper_key_tables(signed: &mut J) {
    let up = |t: Option<&mut J>| {
        if let Some(J::Obj(m)) = t {
            for (k, _) in m.iter_mut() {
                *k = k.to_uppercase();
            }
        }
    };
    up(signed.get_mut("keys"));
    up(signed.get_mut("delegations").and_then(|d| d.get_mut("keys")));
}

struct World {
    shipped: Vec<u8>,
    /// file name -> bytes (already mutated where applicable)
    files: std::collections::HashMap<String, Vec<u8>>,
    original_signed: J,
    mutated_signed: J,
    level_class: &'static str,
    applied: bool,
}

fn extra_value(i: usize) -> J {
    match i % 6 {
        5 => s("two lines\nand a tab\t, a control \u{1}, a quote \" and a backslash \\"),
        0 => s("extra value"),
        1 => n(42),
        2 => obj(vec![("nested", J::Arr(vec![n(1), s("two"), J::Null])), ("b", J::Bool(true))]),
        3 => J::Arr(vec![s("x"), obj(vec![("k", s("v"))])]),
        _ => J::Null,
    }
}

fn build(sc: &Sc) -> World {
    let w = sc.world;
    let (k_root, k_ts, k_snap, k_tg, k_d) = (keys::ed(w, 1), keys::ed(w, 2), keys::ed(w, 3), keys::ed(w, 4), keys::ed(w, 10));
    // the timestamp key is also authorised for snapshot (role-swap clause), and the other way round
    let both = RoleKeys { keys: vec![k_ts.clone(), k_snap.clone()], threshold: 1 };
    let mk_root = |version: u64| RootSpec {
        version,
        expires: FAR,
        consistent_snapshot: sc.consistent,
        root: RoleKeys::one(&k_root),
        timestamp: both.clone(),
        snapshot: both.clone(),
        targets: RoleKeys::one(&k_tg),
    };
    let (n1, n2) = if sc.tricky_target_names { ("data", "data 2") } else { ("alpha", "beta") };
    let mut e1 = TargetEntry::of(n1, b"one");
    e1.custom = Some(obj(vec![("kind", s("demo")), ("level", n(3))]));
    let e2 = TargetEntry::of(n2, b"two");
    let (dn1, dn2) = if sc.tricky_target_names { ("d/file", "d/file 2") } else { ("d/x", "d/y") };
    let mut de = TargetEntry::of(dn1, b"dx");
    de.custom = Some(obj(vec![("owner", s("team"))]));
    let de2 = TargetEntry::of(dn2, b"dy");
    let mut signed_d = targets_signed(1, FAR, &[de, de2], None);
    let delegs = [DelegSpec { name: "d1".into(), keys: RoleKeys::one(&k_d), paths: Paths::Globs(vec!["d/*".into()]), terminating: false }];
    let mut signed_tg = targets_signed(1, FAR, &[e1, e2], Some(&delegs));
    let mut signed_r2 = mk_root(2).signed();
    let mut signed_r1 = mk_root(1).signed();
    if sc.upper_keyids {
        upper_key_tables(&mut signed_r1);
        upper_key_tables(&mut signed_r2);
        upper_key_tables(&mut signed_tg);
    }
    // version-only pins: signature verification must be the only defence against tampering
    let mut signed_snap = snapshot_signed(
        1,
        FAR,
        &[("targets.json".to_string(), Meta { version: 1, length: None, sha256: None }), ("d1.json".to_string(), Meta { version: 1, length: None, sha256: None })],
    );
    // give the snapshot entries digests of *nothing in particular*? no: leave them out; but keep one
    // hashes object in the timestamp so that the level exists there
    let mut signed_ts = timestamp_signed(1, FAR, &Meta { version: 1, length: None, sha256: None });
    if sc.mutation == Mutation::RoleSwap {
        // Make each of the two documents a complete stand-in for the other as far as content goes
        // (both `meta` maps are open maps, so the additional entries are legal): the timestamp also
        // lists targets.json and d1.json, the snapshot also lists snapshot.json. Then nothing but
        // the role binding of the signature stands between a swapped document and acceptance.
        let v1 = || Meta { version: 1, length: None, sha256: None }.json();
        if let Some(J::Obj(m)) = signed_ts.get_mut("meta") {
            m.push(("targets.json".into(), v1()));
            m.push(("d1.json".into(), v1()));
        }
        if let Some(J::Obj(m)) = signed_snap.get_mut("meta") {
            m.push(("snapshot.json".into(), v1()));
        }
    }

    let target: &mut J = match sc.role {
        RoleT::Root => &mut signed_r2,
        RoleT::Timestamp => &mut signed_ts,
        RoleT::Snapshot => &mut signed_snap,
        RoleT::Targets => &mut signed_tg,
        RoleT::Delegated => &mut signed_d,
    };
    // ---- unknown members at one struct-like level
    let mut level_class = "none";
    if let Some(li) = sc.extra_level {
        let ls = levels(target);
        let (path, class) = ls[li % ls.len()].clone();
        level_class = class;
        if let Some(J::Obj(m)) = at_mut(target, &path) {
            for (i, nm) in sc.extra_names.iter().enumerate() {
                if !m.iter().any(|(k, _)| k == nm) {
                    let v = if class == "hashes" { s("00ff") } else { extra_value(i + li) };
                    m.push((nm.clone(), v));
                }
            }
        }
    }
    let original_signed = target.clone();
    // sign the original
    let signer = match sc.role {
        RoleT::Root => vec![k_root.clone()],
        RoleT::Timestamp => vec![k_ts.clone()],
        RoleT::Snapshot => vec![k_snap.clone()],
        RoleT::Targets => vec![k_tg.clone()],
        RoleT::Delegated => vec![k_d.clone()],
    };
    let mut doc = Doc::signed_by(original_signed.clone(), &signer);
    // ---- the in-flight mutation
    let mut mutated = original_signed.clone();
    let mut applied = true;
    let mut style = Style::Compact;
    match &sc.mutation {
        Mutation::None => {}
        Mutation::Reorder => style = Style::Reversed,
        Mutation::Whitespace => style = Style::Tabs,
        Mutation::JunkSignature => doc.sigs.push(sign_with(&original_signed, &keys::ed(w, 998))),
        Mutation::StaleSignatureFirst => {
            let mut other = original_signed.clone();
            other.set("spec_version", s("1.0.1"));
            let stale = sign_with(&other, &signer[0]);
            doc.sigs.insert(0, stale);
        }
        Mutation::Scalar(i) => {
            let c = count_scalars(&mutated).max(1);
            applied = mutate_scalar(&mut mutated, &mut 0, i % c);
        }
        Mutation::Insert(i) => {
            let c = count_objects(&mutated).max(1);
            applied = with_object(&mut mutated, &mut 0, i % c, &mut |m| m.push(("zz-inserted".into(), n(1))));
        }
        Mutation::Delete(i) => {
            let c = count_members(&mutated).max(1);
            applied = with_member(&mut mutated, &mut 0, i % c, &mut |m, ix| {
                m.remove(ix);
            });
        }
        Mutation::Duplicate { member, changed, front } => {
            let c = count_members(&mutated).max(1);
            let (changed, front) = (*changed, *front);
            applied = with_member(&mut mutated, &mut 0, member % c, &mut |m, ix| {
                let (k, mut v) = m[ix].clone();
                if changed {
                    let mut cnt = 0;
                    if !mutate_scalar(&mut v, &mut cnt, 0) {
                        v = n(7);
                    }
                }
                if front {
                    m.insert(0, (k, v));
                } else {
                    m.push((k, v));
                }
            });
        }
        Mutation::TypeTag(t) => mutated.set("_type", s(t)),
        Mutation::InsertConfusable { member, variant, front } => {
            let c = count_members(&mutated).max(1);
            let (variant, front) = (*variant, *front);
            applied = with_member(&mut mutated, &mut 0, member % c, &mut |m, ix| {
                let (k, mut v) = m[ix].clone();
                let mut chars: Vec<char> = k.chars().collect();
                let mid = chars.len() / 2;
                match variant % 5 {
                    0 => chars.insert(mid, '\\'),
                    1 => chars.push('\\'),
                    2 => chars.insert(0, '\\'),
                    3 => chars.insert(mid, '"'),
                    _ => {
                        chars.insert(mid, '\\');
                        chars.insert(mid, '\\');
                    }
                }
                let k2: String = chars.into_iter().collect();
                if m.iter().any(|(kk, _)| *kk == k2) {
                    return;
                }
                if !mutate_scalar(&mut v, &mut 0, 0) {
                    v = n(7);
                }
                if front {
                    m.insert(0, (k2, v));
                } else {
                    m.push((k2, v));
                }
            });
            applied = applied && mutated != original_signed;
        }
        Mutation::RoleSwap => {}
    }
    doc.signed = mutated.clone();
    let served = doc.bytes_styled(style);

    // ---- the rest of the repository (clean), signed over final bytes where pins exist (none do)
    let mut files = std::collections::HashMap::new();
    let r1 = Doc::signed_by(signed_r1, &[k_root.clone()]);
    let shipped = r1.bytes();
    let clean = |signed: &J, k: &keys::K| Doc::signed_by(signed.clone(), &[k.clone()]).bytes();
    let c = sc.consistent;
    let name_snap = if c { "1.snapshot.json" } else { "snapshot.json" };
    let name_tg = if c { "1.targets.json" } else { "targets.json" };
    let name_d = if c { "1.d1.json" } else { "d1.json" };
    files.insert("timestamp.json".to_string(), clean(&signed_ts, &k_ts));
    files.insert(name_snap.to_string(), clean(&signed_snap, &k_snap));
    files.insert(name_tg.to_string(), clean(&signed_tg, &k_tg));
    files.insert(name_d.to_string(), clean(&signed_d, &k_d));
    let slot = match sc.role {
        RoleT::Root => "2.root.json",
        RoleT::Timestamp => "timestamp.json",
        RoleT::Snapshot => name_snap,
        RoleT::Targets => name_tg,
        RoleT::Delegated => name_d,
    };
    if sc.mutation == Mutation::RoleSwap {
        // the (validly signed, untampered) document of this role is served in the other's place
        match sc.role {
            RoleT::Timestamp => {
                files.insert(name_snap.to_string(), served);
            }
            RoleT::Snapshot => {
                files.insert("timestamp.json".to_string(), served);
            }
            _ => applied = false,
        }
    } else {
        files.insert(slot.to_string(), served);
    }
    World { shipped, files, original_signed, mutated_signed: mutated, level_class, applied }
}

const ATTEMPTS: usize = 6;

impl C12 {
    fn load_once(&self, w: &World, transport: &SimTransport, role: RoleT) -> Result<(u64, Value), (Class, String)> {
        let shipped = w.shipped.clone();
        let t2 = transport.clone();
        block_on(async move {
            match crate::world::load(&shipped, t2, None, crate::world::LoadOpts::default()).await {
                Ok(repo) => {
                    let v = match role {
                        RoleT::Root => serde_json::to_value(&repo.root().signed),
                        RoleT::Timestamp => serde_json::to_value(&repo.timestamp().signed),
                        RoleT::Snapshot => serde_json::to_value(&repo.snapshot().signed),
                        RoleT::Targets => serde_json::to_value(&repo.targets().signed),
                        RoleT::Delegated => match repo.delegated_role("d1").and_then(|r| r.targets.as_ref()) {
                            Some(t) => serde_json::to_value(&t.signed),
                            None => Ok(Value::Null),
                        },
                    };
                    Ok((repo.root().signed.version.get(), v.unwrap_or(Value::Null)))
                }
                Err(e) => Err((classify(&e), variant(&e))),
            }
        })
    }
}

impl Check for C12 {
    type Scenario = Sc;
    fn id(&self) -> &'static str {
        "C12"
    }
    fn rule(&self) -> String {
        "a validly signed foreign document of one role type (root, timestamp, snapshot, targets, delegated targets) carrying 0..3 unknown members (values incl. strings with control characters) at one struct-like object level (names incl. space, '!', quote, backslash, non-ASCII, prefix pairs) and optionally prefix-ordered target names, optionally key identifiers spelt in upper-case hex in the key tables; exactly one in-flight change: none, member re-ordering, whitespace, junk signature by an unknown key appended, stale signature under the signer's key id in front of the genuine one, scalar change / member insert / delete / duplicate at any position, insertion of a sibling member whose name differs from an existing one only by a backslash or quote (member-adding mutations are loaded 6 times, other content-changing ones twice, worst attempt judged, because the client's maps are randomly seeded), _type rewrite, timestamp<->snapshot swap under a shared key; pins are version-only so signatures are the only defence; non-trivial = a mutation was applied to a document the client fetched, or unknown members were present; distinct = distinct canonical trace".into()
    }
    fn assumptions(&self) -> Vec<String> {
        vec![
            "strings are NFC-stable, so the one legitimate difference between canonical-JSON implementations (NFC normalisation) is never exercised".into(),
            "unknown members are injected only into struct-like objects, never into maps keyed by names (keys, meta, targets, roles) and never into key objects (C13's domain)".into(),
            "targets <-> delegated-targets document swaps are excluded (both carry _type targets)".into(),
        ]
    }
    fn components(&self) -> Value {
        json!({"real": ["tough load", "schema deserialisation with _extra capture", "verify_role (re-serialisation with olpc-cjson)", "olpc-cjson"], "stub": ["transport (SimTransport)", "foreign publisher signing over the reference canonical form"]})
    }
    fn runs(&self, tier: Tier) -> u64 {
        match tier {
            Tier::Quick => 30_000,
            Tier::Thorough => 1_000_000,
        }
    }
    fn required_faults(&self, _t: Tier) -> Vec<&'static str> {
        vec!["scalar_changed", "confusable_member_inserted", "member_inserted", "member_deleted", "member_duplicated", "type_tag_rewritten", "role_swap", "reordered", "reformatted", "junk_signature", "stale_signature_first", "unknown_members_present"]
    }
    fn required_probes(&self, _t: Tier) -> Vec<&'static str> {
        vec!["tampering_rejected", "benign_change_accepted", "exposed_content_equals_signed", "foreign_document_with_extras_accepted"]
    }
    fn generate(&self, seed: u64, _tier: Tier) -> Sc {
        let mut r = Rng::new(seed);
        let role = *r.pick(&ROLES);
        let extra_level = if r.chance(3, 4) { Some(r.usize_below(64)) } else { None };
        let nn = 1 + r.usize_below(3);
        let mut extra_names: Vec<String> = Vec::new();
        for _ in 0..nn {
            let nm = if r.chance(1, 2) { *r.pick(&EXTRA_NAMES[..2]) } else { *r.pick(&EXTRA_NAMES) };
            if !extra_names.iter().any(|x| x == nm) {
                extra_names.push(nm.to_string());
            }
        }
        let mutation = match r.below(14) {
            0 | 1 => Mutation::None,
            2 => Mutation::Reorder,
            3 => Mutation::Whitespace,
            4 => if r.chance(1, 2) { Mutation::JunkSignature } else { Mutation::StaleSignatureFirst },
            5 | 6 => Mutation::Scalar(r.usize_below(4096)),
            7 => Mutation::Insert(r.usize_below(4096)),
            8 => Mutation::Delete(r.usize_below(4096)),
            9 => Mutation::Duplicate { member: r.usize_below(4096), changed: r.chance(2, 3), front: r.chance(1, 2) },
            10 => Mutation::TypeTag((*r.pick(&["root", "timestamp", "snapshot", "targets", "mirrors"])).to_string()),
            11 => Mutation::RoleSwap,
            _ => Mutation::InsertConfusable { member: r.usize_below(4096), variant: r.below(5) as u8, front: r.chance(1, 2) },
        };
        let role = if mutation == Mutation::RoleSwap { *r.pick(&[RoleT::Timestamp, RoleT::Snapshot]) } else { role };
        Sc { world: r.below(1_000_003), consistent: r.chance(1, 2), role, extra_level, extra_names, tricky_target_names: r.chance(1, 6), mutation, upper_keyids: r.chance(1, 8) }
    }
    fn shrink(&self, sc: &Sc) -> Vec<Sc> {
        let mut v = Vec::new();
        if sc.consistent {
            v.push(Sc { consistent: false, ..sc.clone() });
        }
        if sc.tricky_target_names {
            v.push(Sc { tricky_target_names: false, ..sc.clone() });
        }
        if sc.upper_keyids {
            v.push(Sc { upper_keyids: false, ..sc.clone() });
        }
        if sc.extra_level.is_some() {
            v.push(Sc { extra_level: None, extra_names: vec![], ..sc.clone() });
            for i in 0..sc.extra_names.len() {
                if sc.extra_names.len() > 1 {
                    let mut e = sc.extra_names.clone();
                    e.remove(i);
                    v.push(Sc { extra_names: e, ..sc.clone() });
                }
            }
            for i in 0..sc.extra_names.len() {
                if sc.extra_names[i] != "zz" {
                    let mut e = sc.extra_names.clone();
                    e[i] = "zz".into();
                    e.dedup();
                    v.push(Sc { extra_names: e, ..sc.clone() });
                }
            }
        }
        if sc.mutation != Mutation::None {
            v.push(Sc { mutation: Mutation::None, ..sc.clone() });
        }
        v
    }
    fn run(&self, sc: &Sc) -> Outcome {
        let mut o = Outcome::new();
        let w = build(sc);
        // the targets and delegated documents are part of every world, so their names matter
        // whatever the role under test is
        // unknown members inside delegations are refused whatever else the document looks like
        // (known finding F8): keep that class of refusals under its own keys
        let f8_level = matches!(w.level_class, "delegations" | "delegated-role-entry");
        let ncls = if sc.upper_keyids && !f8_level { "upper-case-key-ids" } else { name_class(if sc.extra_level.is_some() { &sc.extra_names } else { &[] }, sc.tricky_target_names) };
        o.ev(format!(
            "cfg role={:?} consistent={} upper_keyids={} level={:?}/{} names={:?} tricky={} mutation={:?} applied={}",
            sc.role, sc.consistent, sc.upper_keyids, sc.extra_level, w.level_class, sc.extra_names, sc.tricky_target_names, sc.mutation, w.applied
        ));
        let files = w.files.clone();
        let transport = SimTransport::new(move |r| {
            if r.base == Base::Metadata {
                files.get(&r.rel).map_or(Resp::not_found(), |b| Resp::whole(b))
            } else {
                Resp::not_found()
            }
        });
        let role = sc.role;
        let canon_orig = json::canon(&w.original_signed).expect("original canonicalises");
        // The client keeps maps in randomly seeded hash tables, so whether a tampered document gets
        // through may depend on an iteration order drawn per parse: a content-changing mutation is
        // loaded several times and judged by the worst attempt. Only the aggregate is traced (on a
        // tree where the property holds every attempt ends the same way).
        let attempts = match sc.mutation {
            Mutation::None | Mutation::Reorder | Mutation::Whitespace | Mutation::JunkSignature | Mutation::StaleSignatureFirst | Mutation::RoleSwap => 1,
            // mutations that add a member are the ones whose fate can hinge on map iteration order
            Mutation::Insert(_) | Mutation::InsertConfusable { .. } | Mutation::Duplicate { .. } => ATTEMPTS,
            _ => 2,
        };
        let mut res = self.load_once(&w, &transport, role);
        for _ in 1..attempts {
            let bad = |r: &Result<(u64, Value), (Class, String)>| match r {
                Ok((rv, exposed)) => (role != RoleT::Root || *rv == 2) && J::try_from_value(exposed).and_then(|j| json::canon(&j)).as_deref() != Some(&canon_orig[..]),
                Err(_) => false,
            };
            if bad(&res) {
                break;
            }
            let again = self.load_once(&w, &transport, role);
            if bad(&again) || (res.is_err() && again.is_ok()) {
                res = again;
            }
        }
        let fetched = transport.log().iter().any(|l| match sc.role {
            RoleT::Root => l.rel == "2.root.json",
            RoleT::Timestamp => l.rel == "timestamp.json",
            RoleT::Snapshot => l.rel.ends_with("snapshot.json"),
            RoleT::Targets => l.rel.ends_with("targets.json"),
            RoleT::Delegated => l.rel.ends_with("d1.json"),
        });
        o.ev(format!("load={:?} fetched={fetched}", res.as_ref().map(|(v, _)| *v).map_err(|e| (e.0.name(), e.1.clone()))));

        // The role tag is re-derived by the client from the place a document is used in (it does
        // not expose or act on the transmitted value), so a change confined to the top-level
        // `_type` member alters nothing the client uses: compare with the tag normalised. Clause
        // (b) below still compares what the client exposes with what was signed, tag included.
        let tag = w.original_signed.get("_type").cloned().unwrap_or(J::Null);
        let norm = |j: &J| {
            let mut j = j.clone();
            if let J::Obj(m) = &mut j {
                m.retain(|(k, _)| k != "_type");
                m.push(("_type".into(), tag.clone()));
            }
            j
        };
        let c_first = json::canon(&norm(&dedupe(&w.mutated_signed, true)));
        let c_last = json::canon(&norm(&dedupe(&w.mutated_signed, false)));
        let content_changed = c_first.as_deref() != Some(&canon_orig[..]) && c_last.as_deref() != Some(&canon_orig[..]);
        let content_same = c_first.as_deref() == Some(&canon_orig[..]) && c_last.as_deref() == Some(&canon_orig[..]);
        let benign = matches!(sc.mutation, Mutation::None | Mutation::Reorder | Mutation::Whitespace | Mutation::JunkSignature | Mutation::StaleSignatureFirst);
        let mutation_name = match &sc.mutation {
            Mutation::None => "none",
            Mutation::Reorder => "reorder",
            Mutation::Whitespace => "whitespace",
            Mutation::JunkSignature => "junk-signature",
            Mutation::StaleSignatureFirst => "stale-signature-first",
            Mutation::Scalar(_) => "scalar-change",
            Mutation::Insert(_) => "member-insert",
            Mutation::Delete(_) => "member-delete",
            Mutation::Duplicate { .. } => "member-duplicate",
            Mutation::TypeTag(_) => "type-tag",
            Mutation::InsertConfusable { .. } => "confusable-member-insert",
            Mutation::RoleSwap => "role-swap",
        };
        // was the document under test accepted?
        let accepted = match (&res, sc.role) {
            (Ok((rootv, _)), RoleT::Root) => *rootv == 2,
            (Ok(_), _) => true,
            (Err(_), _) => false,
        };
        if sc.mutation == Mutation::RoleSwap {
            // the same question put to the public verification API directly
            if w.applied {
                use tough::schema::{Root, Signed, Snapshot, Timestamp};
                let name_snap = if sc.consistent { "1.snapshot.json" } else { "snapshot.json" };
                let root: Option<Signed<Root>> = serde_json::from_slice(&w.shipped).ok();
                let api = root.and_then(|root| match sc.role {
                    RoleT::Timestamp => serde_json::from_slice::<Signed<Snapshot>>(&w.files[name_snap]).ok().map(|x| root.signed.verify_role(&x).is_ok()),
                    RoleT::Snapshot => serde_json::from_slice::<Signed<Timestamp>>(&w.files["timestamp.json"]).ok().map(|x| root.signed.verify_role(&x).is_ok()),
                    _ => None,
                });
                o.ev(format!("api_swap_verdict={api:?}"));
                if api == Some(true) {
                    o.violate("role-swap-accepted-by-verify-role", format!("Root::verify_role accepted a {:?} document parsed as the other of timestamp/snapshot", sc.role));
                }
            }
            if w.applied && res.is_ok() {
                o.violate("role-swap-accepted", format!("a {:?} document was accepted in place of the other of timestamp/snapshot", sc.role));
            } else if w.applied {
                o.probe("tampering_rejected");
                o.fault("role_swap");
            }
            o.nontrivial = w.applied;
            return o;
        }
        // (b) whatever was accepted must expose exactly the signed content
        if accepted {
            if let Ok((_, exposed)) = &res {
                match J::try_from_value(exposed).and_then(|j| json::canon(&j)) {
                    Some(c) => {
                        if c == canon_orig {
                            o.probe("exposed_content_equals_signed");
                        } else {
                            o.violate(
                                format!("exposed-content-differs-from-signed:{mutation_name}"),
                                format!("accepted {:?} document exposes content whose canonical form differs from what was signed", sc.role),
                            );
                        }
                    }
                    None => o.harness("exposed document does not canonicalise"),
                }
            }
        }
        // (c) content-changing tampering: if the client accepted the document, clause (b) has already
        // compared what it exposes with what was signed (a member the parser drops and never uses
        // does not make the used content differ from the signed content). Count both outcomes.
        if !benign && w.applied && content_changed && fetched {
            if accepted {
                o.probe("tampering_neutralised_by_parser");
            } else {
                o.probe("tampering_rejected");
            }
        }
        // (a) interop: untampered / benignly changed documents must be accepted
        if (benign || (w.applied && content_same && matches!(sc.mutation, Mutation::None))) && !accepted {
            match &res {
                Err((Class::Signature | Class::Parse, var)) => o.violate(
                    format!("interop-rejected:{}:{ncls}", w.level_class),
                    format!("a validly signed {:?} document (change in flight: {mutation_name}; unknown members {:?} at level {}) was refused with {var}", sc.role, sc.extra_names, w.level_class),
                ),
                Err((c, var)) => o.harness(format!("clean world failed with {var} ({})", c.name())),
                Ok(_) => o.violate(format!("interop-rejected:{}:{ncls}", w.level_class), "properly signed newer root was not adopted"),
            }
        }
        if benign && accepted {
            if sc.mutation != Mutation::None {
                o.probe("benign_change_accepted");
            }
            if sc.extra_level.is_some() {
                o.probe("foreign_document_with_extras_accepted");
            }
        }
        // fault accounting
        if fetched && w.applied {
            match &sc.mutation {
                Mutation::Scalar(_) => o.fault("scalar_changed"),
                Mutation::Insert(_) => o.fault("member_inserted"),
                Mutation::InsertConfusable { .. } => o.fault("confusable_member_inserted"),
                Mutation::Delete(_) => o.fault("member_deleted"),
                Mutation::Duplicate { .. } => o.fault("member_duplicated"),
                Mutation::TypeTag(_) => o.fault("type_tag_rewritten"),
                Mutation::Reorder => o.fault("reordered"),
                Mutation::Whitespace => o.fault("reformatted"),
                Mutation::JunkSignature => o.fault("junk_signature"),
                Mutation::StaleSignatureFirst => o.fault("stale_signature_first"),
                _ => {}
            }
        }
        if fetched && sc.extra_level.is_some() {
            o.fault("unknown_members_present");
        }
        o.nontrivial = fetched && (sc.mutation != Mutation::None || sc.extra_level.is_some());
        o
    }
}
