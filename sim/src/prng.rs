//! The one source of randomness of the simulator: splitmix64-seeded xoshiro256**, plus a
//! counter-based hash for decisions that must not depend on arrival order (see DESIGN §1.4).

#[derive(Clone, Debug)]
pub struct Rng {
    s: [u64; 4],
}

pub fn splitmix(x: &mut u64) -> u64 {
    *x = x.wrapping_add(0x9E37_79B9_7F4A_7C15);
    let mut z = *x;
    z = (z ^ (z >> 30)).wrapping_mul(0xBF58_476D_1CE4_E5B9);
    z = (z ^ (z >> 27)).wrapping_mul(0x94D0_49BB_1331_11EB);
    z ^ (z >> 31)
}

/// Mix two integers into one (used to derive per-run seeds: mix(mix(seed, property), i)).
pub fn mix(a: u64, b: u64) -> u64 {
    let mut x = a ^ b.rotate_left(32) ^ 0xD6E8_FEB8_6659_FD93;
    let r = splitmix(&mut x);
    let mut y = r ^ b;
    splitmix(&mut y)
}

/// FNV-1a, for keying decisions by strings (URLs, names).
pub fn hash_str(s: &str) -> u64 {
    let mut h: u64 = 0xcbf2_9ce4_8422_2325;
    for b in s.as_bytes() {
        h ^= u64::from(*b);
        h = h.wrapping_mul(0x0000_0100_0000_01B3);
    }
    h
}

pub fn hash_bytes(s: &[u8]) -> u64 {
    let mut h: u64 = 0xcbf2_9ce4_8422_2325;
    for b in s {
        h ^= u64::from(*b);
        h = h.wrapping_mul(0x0000_0100_0000_01B3);
    }
    h
}

impl Rng {
    pub fn new(seed: u64) -> Self {
        let mut x = seed;
        let s = [
            splitmix(&mut x),
            splitmix(&mut x),
            splitmix(&mut x),
            splitmix(&mut x),
        ];
        Rng { s }
    }

    /// A child generator keyed by a label; drawing from the child does not advance the parent
    /// beyond this one call.
    pub fn fork(&mut self, label: u64) -> Rng {
        Rng::new(mix(self.next_u64(), label))
    }

    pub fn next_u64(&mut self) -> u64 {
        let r = self.s[1].wrapping_mul(5).rotate_left(7).wrapping_mul(9);
        let t = self.s[1] << 17;
        self.s[2] ^= self.s[0];
        self.s[3] ^= self.s[1];
        self.s[1] ^= self.s[2];
        self.s[0] ^= self.s[3];
        self.s[2] ^= t;
        self.s[3] = self.s[3].rotate_left(45);
        r
    }

    /// Uniform in 0..n (n > 0).
    pub fn below(&mut self, n: u64) -> u64 {
        assert!(n > 0);
        // multiply-shift; bias is irrelevant at our n
        ((u128::from(self.next_u64()) * u128::from(n)) >> 64) as u64
    }

    pub fn usize_below(&mut self, n: usize) -> usize {
        self.below(n as u64) as usize
    }

    /// Uniform in lo..=hi.
    pub fn range(&mut self, lo: u64, hi: u64) -> u64 {
        assert!(lo <= hi);
        lo + self.below(hi - lo + 1)
    }

    pub fn chance(&mut self, num: u64, den: u64) -> bool {
        self.below(den) < num
    }

    pub fn pick<'a, T>(&mut self, xs: &'a [T]) -> &'a T {
        &xs[self.usize_below(xs.len())]
    }

    pub fn bytes(&mut self, n: usize) -> Vec<u8> {
        let mut v = Vec::with_capacity(n + 8);
        while v.len() < n {
            v.extend_from_slice(&self.next_u64().to_le_bytes());
        }
        v.truncate(n);
        v
    }

    pub fn shuffle<T>(&mut self, xs: &mut [T]) {
        for i in (1..xs.len()).rev() {
            let j = self.usize_below(i + 1);
            xs.swap(i, j);
        }
    }

    /// Split `total` into chunk lengths according to a style drawn from this generator.
    pub fn chunking(&mut self, total: usize) -> Vec<usize> {
        let style = self.below(6);
        let mut out = Vec::new();
        let mut left = total;
        match style {
            0 => out.push(total),
            1 => {
                // 1-byte chunks (capped: beyond 2048 bytes fall back to 97-byte chunks)
                let step = if total <= 2048 { 1 } else { 97 };
                while left > 0 {
                    let n = step.min(left);
                    out.push(n);
                    left -= n;
                }
            }
            2 => {
                while left > 0 {
                    let n = 4096.min(left);
                    out.push(n);
                    left -= n;
                }
            }
            _ => {
                let maxc = [7usize, 64, 1000, 9000][self.usize_below(4)];
                while left > 0 {
                    let n = (1 + self.usize_below(maxc)).min(left);
                    out.push(n);
                    left -= n;
                    if out.len() > 4096 {
                        out.push(left);
                        left = 0;
                    }
                }
            }
        }
        if total == 0 && self.chance(1, 2) {
            out.clear();
        }
        // sprinkle zero-length chunks
        if style >= 3 && self.chance(1, 3) {
            let k = 1 + self.usize_below(3);
            for _ in 0..k {
                let at = self.usize_below(out.len() + 1);
                out.insert(at, 0);
            }
        }
        out
    }
}
