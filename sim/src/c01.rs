//! C01 — only metadata signed by a threshold of distinct authorised keys is trusted.
//!
//! The Byzantine party manipulates the unsigned envelope (the signature list) of one document at
//! one verification site of a full update cycle; ground truth is pure bookkeeping over which
//! signatures the harness made (DESIGN §3.2).

use crate::classify::{classify, variant, Class};
use crate::engine::{block_on, Check, Outcome, Tier};
use crate::json::{self, J};
use crate::keys::{self, Alg, K};
use crate::prng::Rng;
use crate::publisher::*;
use crate::transport::SimTransport;
use crate::world::{self, sign_threshold};
use serde::{Deserialize, Serialize};
use serde_json::{json, Value};
use std::collections::BTreeSet;

#[derive(Clone, Copy, Debug, Serialize, Deserialize, PartialEq, Eq)]
pub enum Site {
    ShippedRoot,
    RootOldKeys,
    RootNewKeys,
    Timestamp,
    Snapshot,
    Targets,
    Deleg1,
    Deleg2,
    /// root N+1 keeps root N's root role entry (key ids, threshold) unchanged but its key table
    /// omits the keys whose signatures were needed to satisfy root N: judged under its own table
    RootSameRole,
    /// one delegated role reached through two parents that authorise different keys for it: the
    /// word is judged against the second parent's key set (the first parent's is always satisfied)
    DelegDiamond,
}

pub const SITES: [Site; 10] = [
    Site::ShippedRoot,
    Site::RootOldKeys,
    Site::RootNewKeys,
    Site::Timestamp,
    Site::Snapshot,
    Site::Targets,
    Site::Deleg1,
    Site::Deleg2,
    Site::RootSameRole,
    Site::DelegDiamond,
];

#[derive(Clone, Copy, Debug, Serialize, Deserialize, PartialEq, Eq)]
pub enum Letter {
    /// valid signature by the next not yet used authorised key
    Valid,
    /// another valid signature by the most recently used authorised key
    Again,
    /// signature entry of an authorised key with corrupted signature bytes
    Corrupt,
    /// valid signature by an authorised key, but over other content
    OtherContent,
    /// valid signature by a key that the same key table lists for another role
    OtherRole,
    /// valid signature by a key that appears nowhere
    Unknown,
    /// valid signature by a key whose id is among the role's keyids but absent from the key table
    MissingFromTable,
}

pub const LETTERS: [Letter; 7] = [
    Letter::Valid,
    Letter::Again,
    Letter::Corrupt,
    Letter::OtherContent,
    Letter::OtherRole,
    Letter::Unknown,
    Letter::MissingFromTable,
];

#[derive(Clone, Debug, Serialize, Deserialize)]
pub struct Sc {
    pub world: u64,
    pub site: Site,
    pub algs: Vec<Alg>,
    pub threshold: u64,
    pub word: Vec<Letter>,
    pub consistent: bool,
}

pub struct C01;

const N_WORDS: u64 = 1 + 7 + 49 + 343 + 2401 + 16807; // 19 608

fn word_of(mut i: u64) -> Vec<Letter> {
    let mut len = 0;
    let mut block = 1u64;
    while i >= block {
        i -= block;
        block *= 7;
        len += 1;
    }
    let mut w = Vec::new();
    for _ in 0..len {
        w.push(LETTERS[(i % 7) as usize]);
        i /= 7;
    }
    w
}

struct SiteKeys {
    auth: Vec<K>,
    other_role: K,
    unknown: K,
    missing: K,
}

fn site_keys(sc: &Sc) -> SiteKeys {
    // fixture pool indices 0..3 for authorised keys, 4 other-role, 5 unknown/missing share the
    // pool only for non-Ed25519 algorithms; Ed25519 keys are derived per world.
    let auth: Vec<K> = sc.algs.iter().enumerate().map(|(i, a)| keys::key(sc.world, *a, 100 + i as u64 - 100 * u64::from(*a != Alg::Ed25519))).collect();
    SiteKeys {
        auth,
        other_role: keys::ed(sc.world, 200),
        unknown: keys::ed(sc.world, 201),
        missing: keys::ed(sc.world, 202),
    }
}

/// Build the signature list for `signed` from the word; returns the entries and the ground-truth
/// set of distinct authorised, table-present keys that validly signed exactly this content.
fn build_sigs(signed: &J, sk: &SiteKeys, word: &[Letter]) -> (Vec<SigEntry>, BTreeSet<String>) {
    let mut entries = Vec::new();
    let mut truth = BTreeSet::new();
    let mut next = 0usize; // next unused authorised key
    let mut last: Option<usize> = None;
    let n = sk.auth.len();
    let mut other = signed.clone();
    other.set("spec_version", json::s("1.0.1"));
    for l in word {
        match l {
            Letter::Valid => {
                let k = next % n;
                next += 1;
                last = Some(k);
                entries.push(sign_with(signed, &sk.auth[k]));
                truth.insert(sk.auth[k].id.clone());
            }
            Letter::Again => {
                let k = last.unwrap_or(0);
                last = Some(k);
                if next == 0 {
                    next = 1;
                }
                entries.push(sign_with(signed, &sk.auth[k]));
                truth.insert(sk.auth[k].id.clone());
            }
            Letter::Corrupt => {
                let k = next % n;
                let mut e = sign_with(signed, &sk.auth[k]);
                let mut raw = hex::decode(&e.sig).unwrap();
                let mid = raw.len() / 2;
                raw[mid] ^= 0x40;
                e.sig = hex::encode(raw);
                entries.push(e);
            }
            Letter::OtherContent => {
                let k = next % n;
                entries.push(sign_with(&other, &sk.auth[k]));
            }
            Letter::OtherRole => entries.push(sign_with(signed, &sk.other_role)),
            Letter::Unknown => entries.push(sign_with(signed, &sk.unknown)),
            Letter::MissingFromTable => entries.push(sign_with(signed, &sk.missing)),
        }
    }
    (entries, truth)
}

fn add_missing_keyid(signed: &mut J, role_path: &[&str], id: &str) {
    // signed.roles.<role>.keyids (root) – push an id that is not in the key table
    let mut cur = signed;
    for p in role_path {
        cur = cur.get_mut(p).expect("path exists");
    }
    if let Some(J::Arr(a)) = cur.get_mut("keyids") {
        a.push(J::Str(id.to_string()));
    }
}

fn add_missing_keyid_deleg(signed: &mut J, role_name: &str, id: &str) {
    if let Some(J::Arr(roles)) = signed.get_mut("delegations").and_then(|d| d.get_mut("roles")) {
        for r in roles {
            if r.get("name").and_then(J::as_str) == Some(role_name) {
                if let Some(J::Arr(a)) = r.get_mut("keyids") {
                    a.push(J::Str(id.to_string()));
                }
            }
        }
    }
}

struct World {
    shipped: Vec<u8>,
    files: Files,
    meets: bool,
    truth_n: usize,
    /// for the direct-API cross check: (delegating document bytes, site document bytes, role name)
    api: (Vec<u8>, Vec<u8>, String),
}

fn build_world(sc: &Sc) -> World {
    let w = sc.world;
    let sk = site_keys(sc);
    let site_rk = RoleKeys { keys: sk.auth.clone(), threshold: sc.threshold };
    let has_missing = sc.word.contains(&Letter::MissingFromTable);
    let k_root = keys::ed(w, 1);
    let k_ts = keys::ed(w, 2);
    let k_snap = keys::ed(w, 3);
    let k_tg = keys::ed(w, 4);
    let other_role_for_root_table = sk.other_role.clone();

    // role key sets of R1
    let mut r1 = RootSpec {
        version: 1,
        expires: FAR,
        consistent_snapshot: sc.consistent,
        root: RoleKeys::one(&k_root),
        timestamp: RoleKeys::one(&k_ts),
        snapshot: RoleKeys::one(&k_snap),
        targets: RoleKeys::one(&k_tg),
    };
    // the "other role" key must be in the root key table under a different role for root-table
    // sites; we make it a second targets key (or second snapshot key when the site is targets).
    match sc.site {
        Site::Targets => r1.snapshot.keys.push(other_role_for_root_table.clone()),
        Site::Deleg1 | Site::Deleg2 | Site::DelegDiamond => {}
        _ => r1.targets.keys.push(other_role_for_root_table.clone()),
    }
    match sc.site {
        Site::ShippedRoot | Site::RootOldKeys | Site::RootSameRole => r1.root = site_rk.clone(),
        Site::Timestamp => r1.timestamp = site_rk.clone(),
        Site::Snapshot => r1.snapshot = RoleKeys { keys: site_rk.keys.clone(), threshold: sc.threshold },
        Site::Targets => r1.targets = site_rk.clone(),
        _ => {}
    }
    if sc.site == Site::Snapshot {
        // keep other-role key out of the snapshot set
    }

    let mut files = Files::new();
    let mut meets = true;
    let mut truth_n = 0usize;
    let mut api = (Vec::new(), Vec::new(), String::new());
    let mut judge = |truth: &BTreeSet<String>| {
        truth_n = truth.len();
        meets = truth.len() as u64 >= sc.threshold;
    };

    // ---- root(s)
    let mut r1_signed = r1.signed();
    let role_name_in_root = match sc.site {
        Site::ShippedRoot | Site::RootOldKeys | Site::RootSameRole => Some("root"),
        Site::Timestamp => Some("timestamp"),
        Site::Snapshot => Some("snapshot"),
        Site::Targets => Some("targets"),
        _ => None,
    };
    if has_missing {
        if let Some(rn) = role_name_in_root {
            add_missing_keyid(&mut r1_signed, &["roles", rn], &sk.missing.id);
        }
    }
    let r1_doc = if sc.site == Site::ShippedRoot {
        let (sigs, truth) = build_sigs(&r1_signed, &sk, &sc.word);
        judge(&truth);
        Doc { signed: r1_signed.clone(), sigs }
    } else {
        sign_threshold(r1_signed.clone(), &r1.root)
    };
    let shipped = r1_doc.bytes();
    files.meta.insert("1.root.json".into(), shipped.clone());
    if sc.site == Site::ShippedRoot {
        api = (shipped.clone(), shipped.clone(), "root".into());
    }
    let mut final_root = r1.clone();
    if matches!(sc.site, Site::RootOldKeys | Site::RootNewKeys | Site::RootSameRole) {
        let mut r2 = r1.clone();
        r2.version = 2;
        let k_root2 = keys::ed(w, 5);
        let mut r2_signed;
        let doc;
        if sc.site == Site::RootOldKeys {
            r2.root = RoleKeys::one(&k_root2);
            r2_signed = r2.signed();
            let (mut sigs, truth) = build_sigs(&r2_signed, &sk, &sc.word);
            judge(&truth);
            sigs.push(sign_with(&r2_signed, &k_root2));
            doc = Doc { signed: r2_signed.clone(), sigs };
            api = (shipped.clone(), doc.bytes(), "root".into());
        } else if sc.site == Site::RootSameRole {
            r2_signed = r2.signed();
            if has_missing {
                add_missing_keyid(&mut r2_signed, &["roles", "root"], &sk.missing.id);
            }
            // which keys count is a function of the word alone
            let (_, truth) = build_sigs(&r2_signed, &sk, &sc.word);
            judge(&truth);
            // bridging keys: authorised keys that did not validly sign under the word; they sign
            // too (so that root 1's threshold is met) but root 2's key table no longer has them
            let mut bridge: Vec<K> = Vec::new();
            for k in &sk.auth {
                if (truth.len() + bridge.len()) as u64 >= sc.threshold {
                    break;
                }
                if !truth.contains(&k.id) && !bridge.iter().any(|b| b.id == k.id) {
                    bridge.push(k.clone());
                }
            }
            if let Some(J::Obj(table)) = r2_signed.get_mut("keys") {
                table.retain(|(id, _)| !bridge.iter().any(|b| b.id == *id));
            }
            let (mut sigs, _) = build_sigs(&r2_signed, &sk, &sc.word);
            for b in &bridge {
                sigs.push(sign_with(&r2_signed, b));
            }
            doc = Doc { signed: r2_signed.clone(), sigs };
            let b = doc.bytes();
            api = (b.clone(), b, "root".into());
        } else {
            r2.root = site_rk.clone();
            r2_signed = r2.signed();
            if has_missing {
                add_missing_keyid(&mut r2_signed, &["roles", "root"], &sk.missing.id);
            }
            let (sigs, truth) = build_sigs(&r2_signed, &sk, &sc.word);
            judge(&truth);
            let mut all = vec![sign_with(&r2_signed, &k_root)];
            all.extend(sigs);
            doc = Doc { signed: r2_signed.clone(), sigs: all };
            let b = doc.bytes();
            api = (b.clone(), b, "root".into());
        }
        files.meta.insert("2.root.json".into(), doc.bytes());
        final_root = r2;
    }
    let delegating_root_bytes = files
        .meta
        .get(&format!("{}.root.json", final_root.version))
        .cloned()
        .unwrap();

    // ---- delegated roles
    let k_d1 = keys::ed(w, 6);
    let mut deleg_files: Vec<(String, u64, Vec<u8>)> = Vec::new(); // name, version, bytes
    let mut top_delegs: Option<Vec<DelegSpec>> = None;
    let glob = |g: &str| Paths::Globs(vec![g.to_string()]);
    match sc.site {
        Site::Deleg1 => {
            let d1 = DelegSpec { name: "d1".into(), keys: site_rk.clone(), paths: glob("d1/*"), terminating: false };
            let sib = DelegSpec { name: "sib".into(), keys: RoleKeys::one(&sk.other_role), paths: glob("sib/*"), terminating: false };
            let d1_signed = targets_signed(1, FAR, &[], None);
            let (sigs, truth) = build_sigs(&d1_signed, &sk, &sc.word);
            judge(&truth);
            let d1_doc = Doc { signed: d1_signed, sigs };
            let sib_doc = Doc::signed_by(targets_signed(1, FAR, &[], None), &[sk.other_role.clone()]);
            deleg_files.push(("d1".into(), 1, d1_doc.bytes()));
            deleg_files.push(("sib".into(), 1, sib_doc.bytes()));
            top_delegs = Some(vec![d1, sib]);
        }
        Site::Deleg2 => {
            let d1 = DelegSpec { name: "d1".into(), keys: RoleKeys::one(&k_d1), paths: glob("d1/*"), terminating: false };
            let d2 = DelegSpec { name: "d2".into(), keys: site_rk.clone(), paths: glob("d1/d2/*"), terminating: false };
            let sib = DelegSpec { name: "sib".into(), keys: RoleKeys::one(&sk.other_role), paths: glob("d1/sib/*"), terminating: false };
            let mut d1_signed = targets_signed(1, FAR, &[], Some(&[d2, sib]));
            if has_missing {
                add_missing_keyid_deleg(&mut d1_signed, "d2", &sk.missing.id);
            }
            let d1_doc = Doc::signed_by(d1_signed, &[k_d1.clone()]);
            let d2_signed = targets_signed(1, FAR, &[], None);
            let (sigs, truth) = build_sigs(&d2_signed, &sk, &sc.word);
            judge(&truth);
            let d2_doc = Doc { signed: d2_signed, sigs };
            let sib_doc = Doc::signed_by(targets_signed(1, FAR, &[], None), &[sk.other_role.clone()]);
            api = (d1_doc.bytes(), d2_doc.bytes(), "d2".into());
            deleg_files.push(("d1".into(), 1, d1_doc.bytes()));
            deleg_files.push(("d2".into(), 1, d2_doc.bytes()));
            deleg_files.push(("sib".into(), 1, sib_doc.bytes()));
            top_delegs = Some(vec![d1]);
        }
        Site::DelegDiamond => {
            // targets -> pa -> shared and targets -> pb -> shared; pa authorises a bridge key for
            // `shared`, pb authorises the site's key set; `shared` exists once
            let (k_pa, k_pb, k_bridge) = (keys::ed(w, 7), keys::ed(w, 8), keys::ed(w, 9));
            let via_pa = DelegSpec { name: "shared".into(), keys: RoleKeys::one(&k_bridge), paths: glob("d1/*"), terminating: false };
            let via_pb = DelegSpec { name: "shared".into(), keys: site_rk.clone(), paths: glob("d1/*"), terminating: false };
            let sib = DelegSpec { name: "sib".into(), keys: RoleKeys::one(&sk.other_role), paths: glob("d1/sib/*"), terminating: false };
            let pa_doc = Doc::signed_by(targets_signed(1, FAR, &[], Some(&[via_pa])), &[k_pa.clone()]);
            let mut pb_signed = targets_signed(1, FAR, &[], Some(&[via_pb, sib]));
            if has_missing {
                add_missing_keyid_deleg(&mut pb_signed, "shared", &sk.missing.id);
            }
            let pb_doc = Doc::signed_by(pb_signed, &[k_pb.clone()]);
            let shared_signed = targets_signed(1, FAR, &[], None);
            let (sigs, truth) = build_sigs(&shared_signed, &sk, &sc.word);
            judge(&truth);
            let mut all = vec![sign_with(&shared_signed, &k_bridge)];
            all.extend(sigs);
            let shared_doc = Doc { signed: shared_signed, sigs: all };
            let sib_doc = Doc::signed_by(targets_signed(1, FAR, &[], None), &[sk.other_role.clone()]);
            api = (pb_doc.bytes(), shared_doc.bytes(), "shared".into());
            deleg_files.push(("pa".into(), 1, pa_doc.bytes()));
            deleg_files.push(("pb".into(), 1, pb_doc.bytes()));
            deleg_files.push(("shared".into(), 1, shared_doc.bytes()));
            deleg_files.push(("sib".into(), 1, sib_doc.bytes()));
            top_delegs = Some(vec![
                DelegSpec { name: "pa".into(), keys: RoleKeys::one(&k_pa), paths: glob("d1/*"), terminating: false },
                DelegSpec { name: "pb".into(), keys: RoleKeys::one(&k_pb), paths: glob("d1/*"), terminating: false },
            ]);
        }
        _ => {}
    }

    // ---- targets
    let mut tg_signed = targets_signed(1, FAR, &[], top_delegs.as_deref());
    if sc.site == Site::Deleg1 && has_missing {
        add_missing_keyid_deleg(&mut tg_signed, "d1", &sk.missing.id);
    }
    let tg_doc = if sc.site == Site::Targets {
        let (sigs, truth) = build_sigs(&tg_signed, &sk, &sc.word);
        judge(&truth);
        Doc { signed: tg_signed, sigs }
    } else {
        sign_threshold(tg_signed, &RoleKeys::one(&k_tg))
    };
    let tg_bytes = tg_doc.bytes();
    if sc.site == Site::Targets {
        api = (delegating_root_bytes.clone(), tg_bytes.clone(), "targets".into());
    }
    if sc.site == Site::Deleg1 {
        api = (tg_bytes.clone(), deleg_files[0].2.clone(), "d1".into());
    }

    // ---- snapshot (pins hashes but no lengths: keeps C09's size dimension out of this check)
    let mut metas = vec![("targets.json".to_string(), Meta::of(1, &tg_bytes, false, true))];
    for (name, ver, bytes) in &deleg_files {
        metas.push((format!("{name}.json"), Meta::of(*ver, bytes, false, true)));
    }
    let snap_signed = snapshot_signed(1, FAR, &metas);
    let snap_doc = if sc.site == Site::Snapshot {
        let (sigs, truth) = build_sigs(&snap_signed, &sk, &sc.word);
        judge(&truth);
        Doc { signed: snap_signed, sigs }
    } else {
        sign_threshold(snap_signed, &RoleKeys::one(&k_snap))
    };
    let snap_bytes = snap_doc.bytes();
    if sc.site == Site::Snapshot {
        api = (delegating_root_bytes.clone(), snap_bytes.clone(), "snapshot".into());
    }

    // ---- timestamp
    let ts_signed = timestamp_signed(1, FAR, &Meta::of(1, &snap_bytes, true, true));
    let ts_doc = if sc.site == Site::Timestamp {
        let (sigs, truth) = build_sigs(&ts_signed, &sk, &sc.word);
        judge(&truth);
        Doc { signed: ts_signed, sigs }
    } else {
        sign_threshold(ts_signed, &RoleKeys::one(&k_ts))
    };
    let ts_bytes = ts_doc.bytes();
    if sc.site == Site::Timestamp {
        api = (delegating_root_bytes.clone(), ts_bytes.clone(), "timestamp".into());
    }

    files.meta.insert("timestamp.json".into(), ts_bytes);
    let c = sc.consistent;
    files.meta.insert(if c { "1.snapshot.json".into() } else { "snapshot.json".into() }, snap_bytes);
    files.meta.insert(if c { "1.targets.json".into() } else { "targets.json".into() }, tg_bytes);
    for (name, ver, bytes) in deleg_files {
        files.meta.insert(if c { format!("{ver}.{name}.json") } else { format!("{name}.json") }, bytes);
    }
    World { shipped, files, meets, truth_n, api }
}

/// Ask the public verification API directly (same words, no workflow around them).
fn api_verdict(site: Site, api: &(Vec<u8>, Vec<u8>, String)) -> Option<bool> {
    use tough::schema::{Root, Signed, Snapshot, Targets, Timestamp};
    let (delegator, doc, name) = api;
    match site {
        Site::ShippedRoot | Site::RootOldKeys | Site::RootNewKeys | Site::RootSameRole => {
            let d: Signed<Root> = serde_json::from_slice(delegator).ok()?;
            let x: Signed<Root> = serde_json::from_slice(doc).ok()?;
            Some(d.signed.verify_role(&x).is_ok())
        }
        Site::Timestamp => {
            let d: Signed<Root> = serde_json::from_slice(delegator).ok()?;
            let x: Signed<Timestamp> = serde_json::from_slice(doc).ok()?;
            Some(d.signed.verify_role(&x).is_ok())
        }
        Site::Snapshot => {
            let d: Signed<Root> = serde_json::from_slice(delegator).ok()?;
            let x: Signed<Snapshot> = serde_json::from_slice(doc).ok()?;
            Some(d.signed.verify_role(&x).is_ok())
        }
        Site::Targets => {
            let d: Signed<Root> = serde_json::from_slice(delegator).ok()?;
            let x: Signed<Targets> = serde_json::from_slice(doc).ok()?;
            Some(d.signed.verify_role(&x).is_ok())
        }
        Site::Deleg1 | Site::Deleg2 | Site::DelegDiamond => {
            let d: Signed<Targets> = serde_json::from_slice(delegator).ok()?;
            let x: Signed<Targets> = serde_json::from_slice(doc).ok()?;
            Some(d.signed.delegations.as_ref()?.verify_role(&x, name).is_ok())
        }
    }
}

fn gen_algs(r: &mut Rng, n: usize, ed_only: bool) -> Vec<Alg> {
    (0..n)
        .map(|_| {
            if ed_only || r.chance(3, 5) {
                Alg::Ed25519
            } else if r.chance(1, 2) {
                Alg::Ecdsa
            } else {
                Alg::Rsa
            }
        })
        .collect()
}

impl Check for C01 {
    type Scenario = Sc;
    fn id(&self) -> &'static str {
        "C01"
    }
    fn rule(&self) -> String {
        "one verification site (10: shipped root, root N+1 under old keys, under new keys, under an unchanged root role entry with a pruned key table, timestamp, snapshot, targets, delegated depth 1 and 2, a role shared by two parents that authorise different keys for it) x key set (1..4 keys, ed25519/ecdsa/rsa mixed) x threshold 1..4 x signature word of length 0..5 over the 7-letter alphabet of the property; thorough enumerates all 19608 words x 10 sites x 16 (keys,threshold) shapes before the seeded runs; non-trivial = the word contains at least one letter other than a first valid signature and the site's document was fetched; distinct = distinct canonical trace".into()
    }
    fn assumptions(&self) -> Vec<String> {
        vec![
            "ground truth is the harness's own bookkeeping of which key signed which bytes; aws-lc signatures are unforgeable".into(),
            "every document other than the site's one is cleanly signed".into(),
            "snapshot pins hashes but not lengths so that size limits (C09) do not interfere".into(),
        ]
    }
    fn components(&self) -> Value {
        json!({"real": ["tough RepositoryLoader::load (root walk, timestamp, snapshot, targets, delegations)", "Root::verify_role", "Delegations::verify_role", "schema deserialisation incl. key-id validation", "olpc-cjson", "aws-lc-rs"], "stub": ["transport (SimTransport)", "foreign publisher + reference canonical JSON"]})
    }
    fn runs(&self, tier: Tier) -> u64 {
        match tier {
            Tier::Quick => 25_000,
            Tier::Thorough => 300_000,
        }
    }
    fn enumerated(&self, tier: Tier) -> u64 {
        match tier {
            Tier::Quick => 0,
            Tier::Thorough => N_WORDS * SITES.len() as u64 * 16,
        }
    }
    fn exhaustive(&self, tier: Tier) -> bool {
        tier == Tier::Thorough
    }
    fn enumerate(&self, index: u64, _tier: Tier) -> Option<Sc> {
        let wi = index % N_WORDS;
        let rest = index / N_WORDS;
        let site = SITES[(rest % SITES.len() as u64) as usize];
        let shape = rest / SITES.len() as u64;
        let nkeys = 1 + (shape % 4) as usize;
        let threshold = 1 + (shape / 4) % 4;
        let mut r = Rng::new(crate::prng::mix(0xC01, index));
        // algorithms cycle with the index; mostly Ed25519 to keep the sweep affordable
        let algs = gen_algs(&mut r, nkeys, index % 5 != 0);
        Some(Sc { world: index % 9973, site, algs, threshold, word: word_of(wi), consistent: index % 2 == 0 })
    }
    fn generate(&self, seed: u64, _tier: Tier) -> Sc {
        let mut r = Rng::new(seed);
        let site = *r.pick(&SITES);
        let nkeys = 1 + r.usize_below(4);
        let threshold = 1 + r.below(4);
        let len = r.usize_below(6);
        // bias towards words around the threshold
        let mut word: Vec<Letter> = Vec::new();
        for _ in 0..len {
            word.push(if r.chance(2, 5) { Letter::Valid } else { *r.pick(&LETTERS) });
        }
        let algs = gen_algs(&mut r, nkeys, false);
        Sc { world: r.below(1_000_003), site, algs, threshold, word, consistent: r.chance(1, 2) }
    }
    fn shrink(&self, sc: &Sc) -> Vec<Sc> {
        let mut v = Vec::new();
        for i in 0..sc.word.len() {
            let mut w = sc.word.clone();
            w.remove(i);
            v.push(Sc { word: w, ..sc.clone() });
        }
        if sc.algs.iter().any(|a| *a != Alg::Ed25519) {
            v.push(Sc { algs: vec![Alg::Ed25519; sc.algs.len()], ..sc.clone() });
        }
        if sc.algs.len() > 1 {
            let mut a = sc.algs.clone();
            a.pop();
            v.push(Sc { algs: a, ..sc.clone() });
        }
        if sc.threshold > 1 {
            v.push(Sc { threshold: sc.threshold - 1, ..sc.clone() });
        }
        if sc.consistent {
            v.push(Sc { consistent: false, ..sc.clone() });
        }
        v
    }
    fn required_faults(&self, _t: Tier) -> Vec<&'static str> {
        vec!["repeated_signature", "corrupted_signature", "signature_over_other_content", "signature_by_other_role_key", "signature_by_unknown_key", "authorised_keyid_missing_from_table"]
    }
    fn required_probes(&self, _t: Tier) -> Vec<&'static str> {
        vec!["accepted_with_threshold_met", "rejected_below_threshold", "api_cross_checked"]
    }
    fn run(&self, sc: &Sc) -> Outcome {
        let mut o = Outcome::new();
        if sc.algs.is_empty() || sc.threshold == 0 {
            o.harness("degenerate scenario");
            return o;
        }
        let w = build_world(sc);
        o.ev(format!(
            "cfg site={:?} nkeys={} thr={} algs={:?} word={:?} consistent={} truth={} meets={}",
            sc.site,
            sc.algs.len(),
            sc.threshold,
            sc.algs,
            sc.word,
            sc.consistent,
            w.truth_n,
            w.meets
        ));
        let transport = world::plain_transport(&w.files);
        let t2: SimTransport = transport.clone();
        let shipped = w.shipped.clone();
        let site = sc.site;
        let res = block_on(async move {
            match world::load(&shipped, t2, None, world::LoadOpts::default()).await {
                Ok(repo) => Ok(repo.root().signed.version.get()),
                Err(e) => Err((classify(&e), variant(&e))),
            }
        });
        let api = api_verdict(site, &w.api);
        o.ev(format!("load={:?} api={:?} requests={}", res.as_ref().map_err(|e| (e.0.name(), e.1.clone())), api, transport.requests()));

        // oracle
        let site_doc_trusted = match (&res, sc.site) {
            (Ok(v), Site::RootOldKeys | Site::RootNewKeys | Site::RootSameRole) => *v == 2,
            (Ok(_), _) => true,
            (Err(_), _) => false,
        };
        if site_doc_trusted && !w.meets {
            o.violate(
                format!("below-threshold-accepted:{:?}:{}", sc.site, dominant(sc)),
                format!("cycle succeeded although the {:?} document carries valid signatures of only {} distinct authorised keys (threshold {})", sc.site, w.truth_n, sc.threshold),
            );
        }
        if w.meets {
            match &res {
                Err((Class::Signature, v)) => o.violate(
                    format!("threshold-met-rejected:{:?}", sc.site),
                    format!("document meets its threshold ({} of {}) but the cycle failed with {v}", w.truth_n, sc.threshold),
                ),
                Err((c, v)) => o.harness(format!("clean world failed with non-signature error {v} ({})", c.name())),
                Ok(v) => {
                    if matches!(sc.site, Site::RootOldKeys | Site::RootNewKeys | Site::RootSameRole) && *v != 2 {
                        o.violate(format!("threshold-met-rejected:{:?}", sc.site), "properly signed newer root was not adopted");
                    }
                    o.probe("accepted_with_threshold_met");
                }
            }
        } else if res.is_err() {
            o.probe("rejected_below_threshold");
        }
        match api {
            Some(ok) => {
                o.probe("api_cross_checked");
                if ok && !w.meets {
                    o.violate(
                        format!("api-below-threshold-accepted:{:?}:{}", sc.site, dominant(sc)),
                        format!("verify_role accepted a document with {} distinct valid authorised signatures, threshold {}", w.truth_n, sc.threshold),
                    );
                }
                if !ok && w.meets {
                    o.violate(format!("api-threshold-met-rejected:{:?}", sc.site), "verify_role rejected a document that meets its threshold");
                }
            }
            None => {
                if w.meets {
                    o.harness("site documents did not parse for the API cross-check");
                }
            }
        }

        // fault accounting: the letter fired if the site's document was actually requested
        let fetched = sc.site == Site::ShippedRoot || transport.requests() > 0;
        if fetched {
            let mut valid_seen = 0;
            for l in &sc.word {
                match l {
                    Letter::Valid => valid_seen += 1,
                    Letter::Again => o.fault("repeated_signature"),
                    Letter::Corrupt => o.fault("corrupted_signature"),
                    Letter::OtherContent => o.fault("signature_over_other_content"),
                    Letter::OtherRole => o.fault("signature_by_other_role_key"),
                    Letter::Unknown => o.fault("signature_by_unknown_key"),
                    Letter::MissingFromTable => o.fault("authorised_keyid_missing_from_table"),
                }
            }
            if valid_seen > sc.algs.len() {
                o.fault("repeated_signature");
            }
        }
        o.nontrivial = fetched && sc.word.iter().any(|l| *l != Letter::Valid);
        o
    }
}

/// The cheapest explanation of an over-acceptance (for violation keys): which class of entries,
/// counted naively, would lift the document over its threshold.
fn dominant(sc: &Sc) -> &'static str {
    let count = |ls: &[Letter]| sc.word.iter().filter(|l| ls.contains(l)).count() as u64;
    let order: [(&'static str, Letter); 6] = [
        ("repeated-signature", Letter::Again),
        ("missing-from-table", Letter::MissingFromTable),
        ("other-role-key", Letter::OtherRole),
        ("unknown-key", Letter::Unknown),
        ("other-content", Letter::OtherContent),
        ("corrupted", Letter::Corrupt),
    ];
    let mut counted = vec![Letter::Valid];
    for (name, l) in order {
        counted.push(l);
        if count(&counted) >= sc.threshold {
            return name;
        }
    }
    "too-few"
}
