//! `SimTransport`: the network / mirror adversary. It owns every byte the client receives, logs
//! every request with a global sequence number, serves scenario-chosen bytes in scenario-chosen
//! chunks, and injects `Pending`, errors and endless data. Decisions are made by a policy that is
//! a pure function of the request identity (base, relative path, n-th request of that path).

use bytes::Bytes;
use futures_core::Stream;
use std::collections::HashMap;
use std::pin::Pin;
use std::sync::atomic::{AtomicBool, AtomicUsize, Ordering};
use std::sync::{Arc, Mutex};
use std::task::{Context, Poll};
use tough::{Transport, TransportError, TransportErrorKind};
use url::Url;

pub const META_BASE: &str = "https://sim.invalid/metadata/";
pub const TARGETS_BASE: &str = "https://sim.invalid/targets/";

#[derive(Clone, Copy, Debug, PartialEq, Eq, serde::Serialize, serde::Deserialize)]
pub enum ErrKind {
    NotFound,
    Other,
}

#[derive(Clone, Debug)]
pub enum Step {
    Data(Vec<u8>),
    /// return `Poll::Pending` once (waking immediately), i.e. a stall that resolves
    Pending,
    /// the stream yields an error item and ends
    Error(ErrKind),
    /// from here on, yield chunks of this size for ever (until the hard cap)
    Endless(usize),
}

#[derive(Clone, Debug)]
pub enum Resp {
    /// `fetch` itself fails
    FetchErr(ErrKind),
    Body(Vec<Step>),
}

impl Resp {
    pub fn whole(data: &[u8]) -> Resp {
        Resp::Body(vec![Step::Data(data.to_vec())])
    }
    pub fn chunked(data: &[u8], lens: &[usize]) -> Resp {
        let mut steps = Vec::new();
        let mut at = 0;
        for l in lens {
            let e = (at + l).min(data.len());
            steps.push(Step::Data(data[at..e].to_vec()));
            at = e;
        }
        if at < data.len() {
            steps.push(Step::Data(data[at..].to_vec()));
        }
        Resp::Body(steps)
    }
    pub fn not_found() -> Resp {
        Resp::FetchErr(ErrKind::NotFound)
    }
}

#[derive(Clone, Copy, Debug, PartialEq, Eq, Hash)]
pub enum Base {
    Metadata,
    Targets,
    Unknown,
}

#[derive(Clone, Debug)]
pub struct ReqInfo {
    pub seq: usize,
    pub url: String,
    pub base: Base,
    /// the part of the URL after the base (still percent-encoded, exactly as requested)
    pub rel: String,
    /// how many times this (base, rel) was requested before in this transport's life
    pub nth: usize,
}

#[derive(Clone, Debug, Default)]
pub struct ReqLog {
    pub seq: usize,
    pub url: String,
    pub rel: String,
    pub is_meta: bool,
    pub fetch_failed: bool,
    pub bytes_pulled: usize,
    pub steps_pulled: usize,
    /// the stream returned `None` to the client (served to its end)
    pub ended: bool,
    /// the stream yielded an injected error
    pub errored: bool,
    pub pendings: usize,
    pub endless: bool,
}

pub enum Event<'a> {
    /// `fetch` was called (before the policy is consulted)
    Fetch(&'a ReqInfo),
    /// the body stream of request `seq` is being polled; `step` steps were already delivered
    Poll { seq: usize, rel: &'a str, step: usize },
}

type Policy = dyn Fn(&ReqInfo) -> Resp + Send + Sync;
type Hook = dyn Fn(Event<'_>) + Send + Sync;

struct Inner {
    policy: Box<Policy>,
    hook: Option<Box<Hook>>,
    log: Mutex<Vec<ReqLog>>,
    counts: Mutex<HashMap<(Base, String), usize>>,
    seq: AtomicUsize,
    budget: usize,
    over_budget: AtomicBool,
    runaway: AtomicBool,
    endless_cap: usize,
}

#[derive(Clone)]
pub struct SimTransport {
    inner: Arc<Inner>,
}

impl std::fmt::Debug for SimTransport {
    fn fmt(&self, f: &mut std::fmt::Formatter<'_>) -> std::fmt::Result {
        write!(f, "SimTransport")
    }
}

impl SimTransport {
    pub fn new(policy: impl Fn(&ReqInfo) -> Resp + Send + Sync + 'static) -> Self {
        Self::with_hook_opt(Box::new(policy), None, 10_000)
    }
    pub fn with_budget(policy: impl Fn(&ReqInfo) -> Resp + Send + Sync + 'static, budget: usize) -> Self {
        Self::with_hook_opt(Box::new(policy), None, budget)
    }
    pub fn with_hook(
        policy: impl Fn(&ReqInfo) -> Resp + Send + Sync + 'static,
        hook: impl Fn(Event<'_>) + Send + Sync + 'static,
    ) -> Self {
        Self::with_hook_opt(Box::new(policy), Some(Box::new(hook)), 10_000)
    }
    fn with_hook_opt(policy: Box<Policy>, hook: Option<Box<Hook>>, budget: usize) -> Self {
        SimTransport {
            inner: Arc::new(Inner {
                policy,
                hook,
                log: Mutex::new(Vec::new()),
                counts: Mutex::new(HashMap::new()),
                seq: AtomicUsize::new(0),
                budget,
                over_budget: AtomicBool::new(false),
                runaway: AtomicBool::new(false),
                endless_cap: 12 << 20,
            }),
        }
    }

    pub fn from_files(files: HashMap<String, Vec<u8>>, targets: HashMap<String, Vec<u8>>) -> Self {
        SimTransport::new(move |r| {
            let m = match r.base {
                Base::Metadata => &files,
                Base::Targets => &targets,
                Base::Unknown => return Resp::not_found(),
            };
            match m.get(&r.rel) {
                Some(b) => Resp::whole(b),
                None => Resp::not_found(),
            }
        })
    }

    pub fn log(&self) -> Vec<ReqLog> {
        self.inner.log.lock().unwrap().clone()
    }
    pub fn requests(&self) -> usize {
        self.inner.seq.load(Ordering::SeqCst)
    }
    pub fn over_budget(&self) -> bool {
        self.inner.over_budget.load(Ordering::SeqCst)
    }
    pub fn runaway(&self) -> bool {
        self.inner.runaway.load(Ordering::SeqCst)
    }
    pub fn meta_url() -> Url {
        Url::parse(META_BASE).unwrap()
    }
    pub fn targets_url() -> Url {
        Url::parse(TARGETS_BASE).unwrap()
    }
}

fn terr(kind: ErrKind, url: &str) -> TransportError {
    match kind {
        ErrKind::NotFound => TransportError::new(TransportErrorKind::FileNotFound, url),
        ErrKind::Other => TransportError::new_with_cause(
            TransportErrorKind::Other,
            url,
            std::io::Error::new(std::io::ErrorKind::ConnectionReset, "injected transport error"),
        ),
    }
}

struct SimStream {
    inner: Arc<Inner>,
    seq: usize,
    url: String,
    rel: String,
    steps: std::vec::IntoIter<Step>,
    delivered: usize,
    endless: Option<usize>,
    endless_sent: usize,
    done: bool,
}

impl SimStream {
    fn with_log<R>(&self, f: impl FnOnce(&mut ReqLog) -> R) -> R {
        let mut log = self.inner.log.lock().unwrap();
        f(&mut log[self.seq])
    }
}

impl Stream for SimStream {
    type Item = Result<Bytes, TransportError>;
    fn poll_next(mut self: Pin<&mut Self>, cx: &mut Context<'_>) -> Poll<Option<Self::Item>> {
        if self.done {
            return Poll::Ready(None);
        }
        if let Some(h) = &self.inner.hook {
            h(Event::Poll { seq: self.seq, rel: &self.rel, step: self.delivered });
        }
        if let Some(sz) = self.endless {
            if self.endless_sent > self.inner.endless_cap {
                self.inner.runaway.store(true, Ordering::SeqCst);
                self.done = true;
                self.with_log(|l| l.errored = true);
                return Poll::Ready(Some(Err(terr(ErrKind::Other, &self.url))));
            }
            self.endless_sent += sz;
            self.delivered += 1;
            self.with_log(|l| {
                l.bytes_pulled += sz;
                l.steps_pulled += 1;
            });
            return Poll::Ready(Some(Ok(Bytes::from(vec![b'E'; sz]))));
        }
        match self.steps.next() {
            None => {
                self.done = true;
                self.with_log(|l| l.ended = true);
                Poll::Ready(None)
            }
            Some(Step::Data(d)) => {
                self.delivered += 1;
                let n = d.len();
                self.with_log(|l| {
                    l.bytes_pulled += n;
                    l.steps_pulled += 1;
                });
                Poll::Ready(Some(Ok(Bytes::from(d))))
            }
            Some(Step::Pending) => {
                self.delivered += 1;
                self.with_log(|l| {
                    l.pendings += 1;
                    l.steps_pulled += 1;
                });
                cx.waker().wake_by_ref();
                Poll::Pending
            }
            Some(Step::Error(k)) => {
                self.done = true;
                self.delivered += 1;
                self.with_log(|l| {
                    l.errored = true;
                    l.steps_pulled += 1;
                });
                Poll::Ready(Some(Err(terr(k, &self.url))))
            }
            Some(Step::Endless(sz)) => {
                self.endless = Some(sz.max(1));
                self.with_log(|l| l.endless = true);
                cx.waker().wake_by_ref();
                Poll::Pending
            }
        }
    }
}

#[async_trait::async_trait]
impl Transport for SimTransport {
    async fn fetch(
        &self,
        url: Url,
    ) -> Result<Pin<Box<dyn Stream<Item = Result<Bytes, TransportError>> + Send>>, TransportError> {
        let inner = &self.inner;
        let u = url.as_str().to_string();
        let (base, rel) = if let Some(r) = u.strip_prefix(META_BASE) {
            (Base::Metadata, r.to_string())
        } else if let Some(r) = u.strip_prefix(TARGETS_BASE) {
            (Base::Targets, r.to_string())
        } else {
            (Base::Unknown, u.clone())
        };
        let seq = inner.seq.fetch_add(1, Ordering::SeqCst);
        let nth = {
            let mut c = inner.counts.lock().unwrap();
            let e = c.entry((base, rel.clone())).or_insert(0);
            let n = *e;
            *e += 1;
            n
        };
        let info = ReqInfo { seq, url: u.clone(), base, rel: rel.clone(), nth };
        inner.log.lock().unwrap().push(ReqLog {
            seq,
            url: u.clone(),
            rel: rel.clone(),
            is_meta: base == Base::Metadata,
            ..Default::default()
        });
        if let Some(h) = &inner.hook {
            h(Event::Fetch(&info));
        }
        if seq >= inner.budget {
            inner.over_budget.store(true, Ordering::SeqCst);
            inner.log.lock().unwrap()[seq].fetch_failed = true;
            return Err(terr(ErrKind::Other, &u));
        }
        match (inner.policy)(&info) {
            Resp::FetchErr(k) => {
                inner.log.lock().unwrap()[seq].fetch_failed = true;
                Err(terr(k, &u))
            }
            Resp::Body(steps) => Ok(Box::pin(SimStream {
                inner: inner.clone(),
                seq,
                url: u,
                rel,
                steps: steps.into_iter(),
                delivered: 0,
                endless: None,
                endless_sent: 0,
                done: false,
            })),
        }
    }
}

/// Percent-decode a URL path segment (lossy on invalid UTF-8); used by policies that key files by
/// their plain names while the client's URL library encodes spaces and non-ASCII characters.
pub fn pct_decode(s: &str) -> String {
    let b = s.as_bytes();
    let mut out = Vec::with_capacity(b.len());
    let mut i = 0;
    while i < b.len() {
        if b[i] == b'%' && i + 2 < b.len() + 0 && i + 2 <= b.len() - 1 + 0 {
            let h = std::str::from_utf8(&b[i + 1..i + 3]).ok().and_then(|x| u8::from_str_radix(x, 16).ok());
            if let Some(v) = h {
                out.push(v);
                i += 3;
                continue;
            }
        }
        out.push(b[i]);
        i += 1;
    }
    String::from_utf8_lossy(&out).to_string()
}
