//! C04 — freeze protection: expired metadata is never trusted while enforcement is on, and the
//! clock guard. The client's only clock is hook H1; the scenario moves it between operations and
//! at a chosen fetch inside `load`.

use crate::classify::{classify, variant, Class};
use crate::engine::{block_on, Check, Outcome, Scratch, Tier};
use crate::keys;
use crate::prng::Rng;
use crate::publisher::*;
use crate::transport::{Base, Event, Resp, SimTransport};
use crate::world::{self, sign_threshold};
use futures::StreamExt;
use serde::{Deserialize, Serialize};
use serde_json::{json, Value};
use std::sync::atomic::{AtomicI64, Ordering};
use std::sync::Arc;
use tough::{ExpirationEnforcement, Prefix, Repository, TargetName};

pub const YEAR: i64 = 365 * 86400;
const MARGINS: [i64; 5] = [1, 60, 86400, YEAR, 30 * YEAR];

#[derive(Clone, Copy, Debug, Serialize, Deserialize, PartialEq, Eq)]
pub enum File {
    RootProbe,
    Timestamp,
    Snapshot,
    Targets,
}

#[derive(Clone, Debug, Serialize, Deserialize)]
pub enum Op {
    /// clock (offset from T0) at the start; optional jump to a later value when `File` is requested
    Load { clock: i64, jump: Option<(File, i64)> },
    Read { clock: i64 },
    Save { clock: i64 },
    /// save under the digest-prefixed name (what `Repository::cache` does for consistent snapshots)
    SaveDigest { clock: i64 },
}

#[derive(Clone, Debug, Serialize, Deserialize)]
pub struct Sc {
    pub world: u64,
    pub consistent: bool,
    pub safe: bool,
    /// expiry offsets from T0 of final root, timestamp, snapshot, targets
    pub exp: [i64; 4],
    /// stepping-stone roots before the final one; true = expired long ago
    pub stepping: Vec<bool>,
    pub ops: Vec<Op>,
}

pub struct C04;

fn root_spec(sc: &Sc, version: u64, expires: i64) -> RootSpec {
    let w = sc.world;
    RootSpec {
        version,
        expires,
        consistent_snapshot: sc.consistent,
        root: RoleKeys::one(&keys::ed(w, 1)),
        timestamp: RoleKeys::one(&keys::ed(w, 2)),
        snapshot: RoleKeys::one(&keys::ed(w, 3)),
        targets: RoleKeys::one(&keys::ed(w, 4)),
    }
}

const CONTENT: &[u8] = b"freeze-protection target payload";

fn build(sc: &Sc) -> (Vec<u8>, Files) {
    let mut files = Files::new();
    let n = sc.stepping.len() + 1;
    let mut shipped = Vec::new();
    for i in 0..n {
        let exp = if i + 1 == n { T0 + sc.exp[0] } else if sc.stepping[i] { T0 - 2 * YEAR } else { FAR };
        let spec = root_spec(sc, (i + 1) as u64, exp);
        let d = Doc::signed_by(spec.signed(), &[keys::ed(sc.world, 1)]);
        if i == 0 {
            shipped = d.bytes();
        }
        files.meta.insert(format!("{}.root.json", i + 1), d.bytes());
    }
    let root = root_spec(sc, n as u64, T0 + sc.exp[0]);
    let tg = sign_threshold(targets_signed(1, T0 + sc.exp[3], &[TargetEntry::of("f.bin", CONTENT)], None), &root.targets);
    let tgb = tg.bytes();
    let sn = sign_threshold(snapshot_signed(1, T0 + sc.exp[2], &[("targets.json".to_string(), Meta::of(1, &tgb, true, true))]), &root.snapshot);
    let snb = sn.bytes();
    let ts = sign_threshold(timestamp_signed(1, T0 + sc.exp[1], &Meta::of(1, &snb, true, true)), &root.timestamp);
    files.meta.insert("timestamp.json".into(), ts.bytes());
    if sc.consistent {
        files.meta.insert("1.snapshot.json".into(), snb);
        files.meta.insert("1.targets.json".into(), tgb);
    } else {
        files.meta.insert("snapshot.json".into(), snb);
        files.meta.insert("targets.json".into(), tgb);
    }
    files.targets.insert(world::target_file_name(sc.consistent, "f.bin", CONTENT), CONTENT.to_vec());
    (shipped, files)
}

fn classify_rel(rel: &str, probe: &str) -> Option<File> {
    if rel == probe {
        Some(File::RootProbe)
    } else if rel.ends_with("timestamp.json") {
        Some(File::Timestamp)
    } else if rel.ends_with("snapshot.json") {
        Some(File::Snapshot)
    } else if rel.ends_with("targets.json") {
        Some(File::Targets)
    } else {
        None
    }
}

fn clock_candidates(exp: &[i64; 4]) -> Vec<i64> {
    let mut v = vec![0, -1, 1, -3 * YEAR, 50 * YEAR, 12 * 3600];
    for e in exp {
        v.push(e - 1);
        v.push(e + 1);
        v.push(e - 3600);
        v.push(e + 3600);
    }
    v
}

impl Check for C04 {
    type Scenario = Sc;
    fn id(&self) -> &'static str {
        "C04"
    }
    fn rule(&self) -> String {
        "expiry of final root/timestamp/snapshot/targets at T0 +/- {1s,1min,1day,1y,30y} (never 0), 0..2 stepping-stone roots (optionally expired), enforcement Safe/Unsafe, 1..5 operations (load / read_target / save_target under the plain or the digest-prefixed name) on one datastore, clock set per operation (forward and backward) and optionally jumped forward when a chosen file is requested inside load; non-trivial = some operation ran with at least one of the four documents expired or with the clock behind a previously recorded time; distinct = distinct canonical trace".into()
    }
    fn assumptions(&self) -> Vec<String> {
        vec![
            "the instant now == expires is generated around, not judged (load uses <=, read_target uses <)".into(),
            "all metadata is cleanly signed and consistent; only time varies".into(),
            "hook H1 is the only clock the client reads (Datastore::system_time)".into(),
        ]
    }
    fn components(&self) -> Value {
        json!({"real": ["tough load / read_target / save_target", "check_expired", "Datastore::system_time incl. latest_known_time.json on a real directory"], "stub": ["clock (H1 thread-local absolute time)", "transport (SimTransport)", "foreign publisher"]})
    }
    fn runs(&self, tier: Tier) -> u64 {
        match tier {
            Tier::Quick => 15_000,
            Tier::Thorough => 1_000_000,
        }
    }
    fn required_faults(&self, _t: Tier) -> Vec<&'static str> {
        vec!["clock_forward_jump_between_ops", "clock_forward_jump_inside_load", "clock_backward_jump_between_ops", "expired:root", "expired:timestamp", "expired:snapshot", "expired:targets", "expired_stepping_stone_root"]
    }
    fn required_probes(&self, _t: Tier) -> Vec<&'static str> {
        vec!["load_refused_expired", "read_refused_after_expiry", "backward_clock_refused", "unsafe_mode_ignored_expiry", "fresh_metadata_accepted"]
    }
    fn generate(&self, seed: u64, _tier: Tier) -> Sc {
        let mut r = Rng::new(seed);
        let mut exp = [0i64; 4];
        let all_fresh = r.chance(1, 3);
        for e in &mut exp {
            let m = *r.pick(&MARGINS);
            *e = if all_fresh || r.chance(3, 5) { m } else { -m };
        }
        let stepping: Vec<bool> = (0..r.usize_below(3)).map(|_| r.chance(1, 2)).collect();
        let cands = clock_candidates(&exp);
        let nops = 1 + r.usize_below(5);
        let mut ops = Vec::new();
        let mut last = 0i64;
        for i in 0..nops {
            let clock = if i == 0 && r.chance(1, 2) {
                0
            } else if r.chance(1, 2) {
                // mostly forward in time
                let c = *r.pick(&cands);
                if c >= last || r.chance(1, 3) { c } else { last }
            } else {
                *r.pick(&cands)
            };
            last = clock;
            let op = match if i == 0 { 0 } else { r.below(4) } {
                0 => {
                    let jump = if r.chance(1, 3) {
                        let to = *r.pick(&cands);
                        if to > clock {
                            Some((*r.pick(&[File::RootProbe, File::Timestamp, File::Snapshot, File::Targets]), to))
                        } else {
                            None
                        }
                    } else {
                        None
                    };
                    if let Some((_, to)) = jump {
                        last = to;
                    }
                    Op::Load { clock, jump }
                }
                1 => Op::Read { clock },
                2 => Op::Save { clock },
                _ => Op::SaveDigest { clock },
            };
            ops.push(op);
        }
        Sc { world: r.below(1_000_003), consistent: r.chance(1, 2), safe: r.chance(4, 5), exp, stepping, ops }
    }
    fn shrink(&self, sc: &Sc) -> Vec<Sc> {
        let mut v = Vec::new();
        for i in (0..sc.ops.len()).rev() {
            if sc.ops.len() > 1 {
                let mut o = sc.ops.clone();
                o.remove(i);
                v.push(Sc { ops: o, ..sc.clone() });
            }
        }
        if !sc.stepping.is_empty() {
            v.push(Sc { stepping: vec![], ..sc.clone() });
        }
        if sc.consistent {
            v.push(Sc { consistent: false, ..sc.clone() });
        }
        for i in 0..sc.ops.len() {
            if let Op::Load { clock, jump: Some(_) } = &sc.ops[i] {
                let mut o = sc.ops.clone();
                o[i] = Op::Load { clock: *clock, jump: None };
                v.push(Sc { ops: o, ..sc.clone() });
            }
        }
        for i in 0..4 {
            if sc.exp[i] != 30 * YEAR {
                let mut e = sc.exp;
                e[i] = 30 * YEAR;
                v.push(Sc { exp: e, ..sc.clone() });
            }
        }
        v
    }
    fn run(&self, sc: &Sc) -> Outcome {
        let mut o = Outcome::new();
        let scratch = Scratch::new();
        let ds = scratch.dir("datastore");
        let outdir = scratch.dir("out");
        let (shipped, files) = build(sc);
        let n_roots = sc.stepping.len() + 1;
        let probe = format!("{}.root.json", n_roots + 1);
        let enforcement = if sc.safe { ExpirationEnforcement::Safe } else { ExpirationEnforcement::Unsafe };
        o.ev(format!("cfg safe={} consistent={} exp={:?} stepping={:?}", sc.safe, sc.consistent, sc.exp, sc.stepping));
        let exp_abs = sc.exp;
        let names = ["root", "timestamp", "snapshot", "targets"];
        let mut repo: Option<Repository> = None;
        // highest clock value a previous Safe operation sampled and recorded
        let mut latest: Option<i64> = None;
        let mut min_clock = i64::MAX;
        let mut max_clock = i64::MIN;
        let mut prev_end: Option<i64> = None;
        let mut interesting = false;
        for (oi, op) in sc.ops.iter().enumerate() {
            let (start, jump) = match op {
                Op::Load { clock, jump } => (*clock, *jump),
                Op::Read { clock } | Op::Save { clock } | Op::SaveDigest { clock } => (*clock, None),
            };
            if let Some(p) = prev_end {
                if start > p {
                    o.fault("clock_forward_jump_between_ops");
                } else if start < p {
                    o.fault("clock_backward_jump_between_ops");
                }
            }
            let clock = Arc::new(AtomicI64::new(start));
            world::set_clock(Some(T0 + start));
            // clock value in force when each file was requested (None = never requested)
            let requested: Arc<std::sync::Mutex<Vec<(File, i64)>>> = Arc::new(std::sync::Mutex::new(Vec::new()));
            let res: Result<String, (Class, String)> = match op {
                Op::Load { .. } => {
                    let meta = files.meta.clone();
                    let tfiles = files.targets.clone();
                    let clock2 = clock.clone();
                    let req2 = requested.clone();
                    let probe2 = probe.clone();
                    let transport = SimTransport::with_hook(
                        move |r| match r.base {
                            Base::Metadata => meta.get(&r.rel).map_or(Resp::not_found(), |b| Resp::whole(b)),
                            Base::Targets => tfiles.get(&r.rel).map_or(Resp::not_found(), |b| Resp::whole(b)),
                            Base::Unknown => Resp::not_found(),
                        },
                        move |ev| {
                            if let Event::Fetch(info) = ev {
                                if info.base != Base::Metadata {
                                    return;
                                }
                                if let Some(f) = classify_rel(&info.rel, &probe2) {
                                    if let Some((jf, to)) = jump {
                                        if jf == f && to > clock2.load(Ordering::SeqCst) {
                                            clock2.store(to, Ordering::SeqCst);
                                            world::set_clock(Some(T0 + to));
                                        }
                                    }
                                    req2.lock().unwrap().push((f, clock2.load(Ordering::SeqCst)));
                                }
                            }
                        },
                    );
                    let ds2 = ds.clone();
                    let shipped2 = shipped.clone();
                    let r = block_on(async move {
                        world::load(&shipped2, transport, Some(&ds2), world::LoadOpts { limits: None, enforcement }).await
                    });
                    match r {
                        Ok(rp) => {
                            repo = Some(rp);
                            Ok("loaded".into())
                        }
                        Err(e) => Err((classify(&e), variant(&e))),
                    }
                }
                Op::Read { .. } => match &repo {
                    None => Ok("skipped".into()),
                    Some(rp) => block_on(async {
                        let tn = TargetName::new("f.bin").unwrap();
                        match rp.read_target(&tn).await {
                            Err(e) => Err((classify(&e), variant(&e))),
                            Ok(None) => Err((Class::Other, "NotFound".into())),
                            Ok(Some(mut s)) => {
                                let mut got = Vec::new();
                                while let Some(item) = s.next().await {
                                    match item {
                                        Ok(b) => got.extend_from_slice(&b),
                                        Err(e) => return Err((classify(&e), variant(&e))),
                                    }
                                }
                                if got == CONTENT { Ok("read".into()) } else { Err((Class::Other, "WrongContent".into())) }
                            }
                        }
                    }),
                },
                Op::Save { .. } | Op::SaveDigest { .. } => match &repo {
                    None => Ok("skipped".into()),
                    Some(rp) => block_on(async {
                        let tn = TargetName::new("f.bin").unwrap();
                        let prefix = if matches!(op, Op::SaveDigest { .. }) { Prefix::Digest } else { Prefix::None };
                        match rp.save_target(&tn, &outdir, prefix).await {
                            Ok(()) => Ok("saved".into()),
                            Err(e) => Err((classify(&e), variant(&e))),
                        }
                    }),
                },
            };
            let end = clock.load(Ordering::SeqCst);
            if end != start {
                o.fault("clock_forward_jump_inside_load");
            }
            min_clock = min_clock.min(start);
            max_clock = max_clock.max(end);
            prev_end = Some(end);
            let reqs = requested.lock().unwrap().clone();
            o.ev(format!(
                "op {oi} {op:?} end={end} requested={reqs:?} latest={latest:?} -> {:?}",
                res.as_ref().map_err(|e| (e.0.name(), e.1.clone()))
            ));
            if matches!(res, Ok(ref s) if s == "skipped") {
                continue;
            }
            // boundary instants are not judged
            if exp_abs.iter().any(|e| *e == start || *e == end) {
                o.inconclusive("clock equals an expiry instant");
                break;
            }
            let expired_at = |i: usize, c: i64| c > exp_abs[i];
            let is_load = matches!(op, Op::Load { .. });
            let fail_class = res.as_ref().err().map(|e| e.0);
            if !sc.safe {
                // enforcement off: neither expiry nor the clock may cause failure
                match fail_class {
                    Some(Class::Expiry) | Some(Class::Clock) => o.violate(
                        format!("unsafe-mode-rejected:{}", fail_class.unwrap().name()),
                        format!("with enforcement switched off operation {oi} failed with {:?}", res.as_ref().err().unwrap().1),
                    ),
                    Some(c) => {
                        o.harness(format!("clean world, enforcement off, op {oi} failed with {:?} ({})", res.as_ref().err().unwrap().1, c.name()));
                        break;
                    }
                    None => {
                        if (0..4).any(|i| expired_at(i, end)) {
                            o.probe("unsafe_mode_ignored_expiry");
                            interesting = true;
                        }
                    }
                }
                continue;
            }
            // ---- Safe mode
            let behind = latest.is_some_and(|l| end < l);
            let partly_behind = latest.is_some_and(|l| start < l);
            let mut must_fail: Option<String> = None;
            if behind {
                must_fail = Some("clock-behind-recorded-time".into());
            }
            if is_load {
                let file_of = [File::RootProbe, File::Timestamp, File::Snapshot, File::Targets];
                for i in 0..4 {
                    // clock in force when that role's file was requested
                    if let Some((_, c)) = reqs.iter().rev().find(|(f, _)| *f == file_of[i]) {
                        if expired_at(i, *c) {
                            must_fail.get_or_insert(format!("expired-{}-accepted", names[i]));
                        }
                    }
                }
                // a role that was never requested cannot have been accepted: load cannot succeed
            } else {
                let earliest = *exp_abs.iter().min().unwrap();
                // the repository object was loaded with these four documents
                if start > earliest {
                    must_fail.get_or_insert("target-served-after-expiry".into());
                }
            }
            if (0..4).any(|i| expired_at(i, end)) || partly_behind {
                interesting = true;
            }
            for i in 0..4 {
                if expired_at(i, end) {
                    o.fault(&format!("expired:{}", names[i]));
                }
            }
            if is_load && sc.stepping.iter().any(|x| *x) {
                o.fault("expired_stepping_stone_root");
            }
            match (&must_fail, &res) {
                (Some(key), Ok(_)) => {
                    o.violate(key.clone(), format!("operation {oi} ({op:?}) succeeded; clock at end T0{end:+}, expiries T0+{:?}, recorded time {latest:?}", sc.exp));
                }
                (Some(_), Err((c, _))) => match c {
                    Class::Expiry => {
                        if is_load {
                            o.probe("load_refused_expired");
                        } else {
                            o.probe("read_refused_after_expiry");
                        }
                    }
                    Class::Clock => o.probe("backward_clock_refused"),
                    _ => {}
                },
                (None, Err((c, var))) => {
                    let nothing_expired = !(0..4).any(|i| expired_at(i, end));
                    match c {
                        Class::Expiry if nothing_expired => o.violate(
                            "fresh-metadata-rejected-as-expired",
                            format!("operation {oi} failed with {var} although nothing is expired at T0{end:+} (expiries T0+{:?})", sc.exp),
                        ),
                        Class::Clock if !partly_behind => o.violate(
                            "monotone-clock-rejected",
                            format!("operation {oi} failed with {var} although the clock never went behind the recorded time {latest:?}"),
                        ),
                        Class::Expiry | Class::Clock => {}
                        _ => {
                            o.harness(format!("clean world op {oi} failed with {var} ({})", c.name()));
                            break;
                        }
                    }
                }
                (None, Ok(_)) => {
                    o.probe("fresh_metadata_accepted");
                }
            }
            // what the datastore has recorded: every Safe operation samples the clock at least once
            // unless it was refused for a backward clock before recording
            let sampled = match &res {
                Err((Class::Clock, _)) => None,
                _ => Some(end),
            };
            if let Some(sv) = sampled {
                if !behind {
                    latest = Some(latest.map_or(sv, |l| l.max(sv)));
                }
            }
        }
        world::set_clock(None);
        if max_clock >= min_clock {
            o.sim_time_s = (max_clock - min_clock) as u64;
        }
        o.nontrivial = interesting;
        o
    }
}
