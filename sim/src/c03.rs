//! C03 — rollback protection holds across update cycles sharing a datastore.

use crate::classify::{classify, variant, Class};
use crate::engine::{block_on, Check, Outcome, Scratch, Tier};
use crate::keys;
use crate::prng::Rng;
use crate::publisher::*;
use crate::transport::{Base, Resp, SimTransport};
use crate::world::{self, sign_threshold};
use serde::{Deserialize, Serialize};
use serde_json::{json, Value};

#[derive(Clone, Copy, Debug, Serialize, Deserialize, PartialEq, Eq)]
pub struct Auth {
    /// key generation (same number = same keys)
    pub gen: u64,
    pub nkeys: u64,
    pub thr: u64,
}

#[derive(Clone, Debug, Serialize, Deserialize, PartialEq, Eq)]
pub struct RootEp {
    pub ts: Auth,
    pub snap: Auth,
    pub tg: Auth,
}

#[derive(Clone, Debug, Serialize, Deserialize)]
pub struct Cycle {
    /// newest root published when this cycle runs (index into roots)
    pub root_epoch: usize,
    /// root the client ships in this cycle (index into roots, <= root_epoch)
    pub shipped: usize,
    pub ts_v: u64,
    pub snap_v: u64,
    pub tg_v: u64,
    /// version of targets.json listed in the snapshot (independent of the served targets file)
    pub listed_v: u64,
    pub drop_listing: bool,
}

#[derive(Clone, Debug, Serialize, Deserialize)]
pub struct Sc {
    pub world: u64,
    pub consistent: bool,
    pub roots: Vec<RootEp>,
    pub cycles: Vec<Cycle>,
    /// every timestamp, snapshot and targets document carries an unknown member whose string
    /// value is awkward to store and read back (0 = no such member): line feed, tab and other
    /// control characters, quote and backslash, non-ASCII
    #[serde(default)]
    pub note: u8,
    /// a delegated role in every state (0 = none): 1 = named `d1`; 2 = named `timestamp`, 3 = named
    /// `snapshot` (legal under consistent snapshots, where its file is `7.timestamp.json`; without
    /// consistent snapshots these two fall back to `d1`). Its version is 7 in every state.
    #[serde(default)]
    pub deleg: u8,
}

pub struct C03;

fn with_note(mut signed: crate::json::J, note: u8) -> crate::json::J {
    let text = match note {
        0 => return signed,
        1 => "signed by release-bot\nbatch 7",
        2 => "col1\tcol2\u{1}end\r\n",
        3 => "quote \" backslash \\ and \u{e9}\u{4e16}",
        _ => "\u{1f}\u{0}x",
    };
    signed.set("x-release-note", crate::json::s(text));
    signed
}

pub fn role_keys(world: u64, role: u64, a: &Auth) -> RoleKeys {
    RoleKeys {
        keys: (0..a.nkeys).map(|j| keys::ed(world, 2000 + role * 500 + a.gen * 4 + j)).collect(),
        threshold: a.thr,
    }
}

pub fn root_spec(world: u64, consistent: bool, roots: &[RootEp], i: usize) -> RootSpec {
    let e = &roots[i];
    RootSpec {
        version: (i + 1) as u64,
        expires: FAR,
        consistent_snapshot: consistent,
        root: RoleKeys::one(&keys::ed(world, 1)),
        timestamp: role_keys(world, 0, &e.ts),
        snapshot: role_keys(world, 1, &e.snap),
        targets: role_keys(world, 2, &e.tg),
    }
}

pub struct State {
    pub files: Files,
}

/// Files of one repository state, signed with the keys the given root authorises.
pub fn build_state(world: u64, consistent: bool, roots: &[RootEp], c: &Cycle, note: u8, deleg: u8) -> Files {
    let root = root_spec(world, consistent, roots, c.root_epoch);
    let mut files = Files::new();
    for i in 0..=c.root_epoch {
        let r = root_spec(world, consistent, roots, i);
        let d = Doc::signed_by(r.signed(), &[keys::ed(world, 1)]);
        files.meta.insert(format!("{}.root.json", i + 1), d.bytes());
    }
    let dname = match (deleg, consistent) {
        (0, _) => None,
        (2, true) => Some("timestamp"),
        (3, true) => Some("snapshot"),
        _ => Some("d1"),
    };
    let kd = keys::ed(world, 77);
    let delegs: Vec<DelegSpec> = dname.iter().map(|n| DelegSpec { name: (*n).to_string(), keys: RoleKeys::one(&kd), paths: Paths::Globs(vec!["zz/*".into()]), terminating: false }).collect();
    let tg = sign_threshold(with_note(targets_signed(c.tg_v, FAR, &[], if delegs.is_empty() { None } else { Some(&delegs) }), note), &root.targets);
    let tgb = tg.bytes();
    let mut metas = Vec::new();
    if let Some(n) = dname {
        let d = Doc::signed_by(targets_signed(7, FAR, &[], None), &[kd.clone()]);
        let db = d.bytes();
        metas.push((format!("{n}.json"), Meta::of(7, &db, true, false)));
        files.meta.insert(if consistent { format!("7.{n}.json") } else { format!("{n}.json") }, db);
    }
    if !c.drop_listing {
        // when the listed version differs from the file the snapshot cannot pin its digest
        let m = if c.listed_v == c.tg_v { Meta::of(c.listed_v, &tgb, true, true) } else { Meta { version: c.listed_v, length: None, sha256: None } };
        metas.push(("targets.json".to_string(), m));
    }
    let sn = sign_threshold(with_note(snapshot_signed(c.snap_v, FAR, &metas), note), &root.snapshot);
    let snb = sn.bytes();
    let ts = sign_threshold(with_note(timestamp_signed(c.ts_v, FAR, &Meta::of(c.snap_v, &snb, true, true)), note), &root.timestamp);
    files.meta.insert("timestamp.json".into(), ts.bytes());
    if consistent {
        files.meta.insert(format!("{}.snapshot.json", c.snap_v), snb);
        files.meta.insert(format!("{}.targets.json", c.listed_v), tgb);
    } else {
        files.meta.insert("snapshot.json".into(), snb);
        files.meta.insert("targets.json".into(), tgb);
    }
    files
}

fn changed_between(roots: &[RootEp], from: usize, to: usize, f: impl Fn(&RootEp) -> Auth) -> bool {
    (from + 1..=to).any(|e| f(&roots[e]) != f(&roots[e - 1]))
}

#[derive(Clone, Copy, Debug)]
struct Seen {
    ts: u64,
    snap: u64,
    tg: u64,
    listed: u64,
}

fn gen_auth(r: &mut Rng, prev: Option<Auth>) -> Auth {
    match prev {
        None => {
            let nkeys = 1 + r.below(2);
            Auth { gen: 0, nkeys, thr: 1 + r.below(nkeys) }
        }
        Some(p) => match r.below(4) {
            0 => Auth { gen: p.gen + 1, nkeys: p.nkeys, thr: p.thr },
            1 => {
                // threshold change (keys stay)
                if p.nkeys == 2 {
                    Auth { thr: 3 - p.thr, ..p }
                } else {
                    Auth { nkeys: 2, thr: 2, ..p }
                }
            }
            2 => {
                // rotate back to an earlier generation
                Auth { gen: p.gen.saturating_sub(1), ..p }
            }
            _ => {
                // add a key, keep threshold
                if p.nkeys == 1 {
                    Auth { nkeys: 2, ..p }
                } else {
                    Auth { nkeys: 1, thr: 1, ..p }
                }
            }
        },
    }
}

impl Check for C03 {
    type Scenario = Sc;
    fn id(&self) -> &'static str {
        "C03"
    }
    fn rule(&self) -> String {
        "history of 2..4 update cycles on one datastore; per cycle (timestamp, snapshot, targets, snapshot-listed targets) versions drawn independently from 1..3, all genuinely signed; 1..4 root versions whose timestamp/snapshot/targets key sets or thresholds change (incl. rotate-and-rotate-back); shipped root older than or equal to the newest; consistent snapshots on/off; in a third of the histories every document carries an unknown member whose string holds control characters, quotes, backslashes or non-ASCII (what is stored must read back); a third carry a delegated role, under consistent snapshots possibly named like a top-level role (`timestamp`, `snapshot`: file `7.timestamp.json`); non-trivial = some cycle ran with a stored file of an earlier cycle in the datastore and served a version different from it; distinct = distinct canonical trace".into()
    }
    fn assumptions(&self) -> Vec<String> {
        vec![
            "the set of published roots never shrinks between cycles (the adversary replays metadata, it does not withhold newer roots)".into(),
            "trusted versions are those reported by the Repository object of earlier successful cycles".into(),
        ]
    }
    fn components(&self) -> Value {
        json!({"real": ["tough load (all steps)", "Datastore on a real directory kept across cycles", "schema/verification", "olpc-cjson", "aws-lc-rs"], "stub": ["transport (SimTransport)", "foreign publisher", "clock (H1, fixed)"]})
    }
    fn runs(&self, tier: Tier) -> u64 {
        match tier {
            Tier::Quick => 15_000,
            Tier::Thorough => 1_000_000,
        }
    }
    fn required_faults(&self, _t: Tier) -> Vec<&'static str> {
        vec!["replayed_older_timestamp", "replayed_older_snapshot", "replayed_older_targets", "snapshot_lists_older_targets", "failed_cycle_in_between", "role_keys_changed_by_newer_root"]
    }
    fn required_probes(&self, _t: Tier) -> Vec<&'static str> {
        vec!["stored_file_verified_and_compared", "rollback_rejected", "forward_move_accepted"]
    }
    fn generate(&self, seed: u64, _tier: Tier) -> Sc {
        let mut r = Rng::new(seed);
        let nroots = 1 + if r.chance(1, 2) { 0 } else { 1 + r.usize_below(3) };
        let mut roots: Vec<RootEp> = Vec::new();
        for i in 0..nroots {
            if i == 0 {
                roots.push(RootEp { ts: gen_auth(&mut r, None), snap: gen_auth(&mut r, None), tg: gen_auth(&mut r, None) });
            } else {
                let p = roots[i - 1].clone();
                let mut e = p.clone();
                let which = r.below(8);
                if which & 1 != 0 || which == 0 {
                    e.ts = gen_auth(&mut r, Some(p.ts));
                }
                if which & 2 != 0 {
                    e.snap = gen_auth(&mut r, Some(p.snap));
                }
                if which & 4 != 0 {
                    e.tg = gen_auth(&mut r, Some(p.tg));
                }
                roots.push(e);
            }
        }
        let ncycles = 2 + r.usize_below(3);
        let mut cycles = Vec::new();
        let mut epoch = if r.chance(1, 2) { 0 } else { r.usize_below(nroots) };
        // shipped-root policy of the history: always the oldest root, always the newest published
        // root (a client that is re-shipped with every release), or something in between
        let policy = r.below(6);
        let fixed_shipped = if policy <= 1 { Some(0usize) } else { None };
        for _ in 0..ncycles {
            if epoch + 1 < nroots && r.chance(1, 2) {
                epoch += 1 + r.usize_below(nroots - epoch - 1).min(1);
            }
            let tg_v = 1 + r.below(3);
            let listed_v = if r.chance(2, 3) { tg_v } else { 1 + r.below(3) };
            cycles.push(Cycle {
                root_epoch: epoch,
                shipped: {
                    // a client's shipped root is only ever replaced by a newer one
                    let lo = cycles.last().map_or(0, |p: &Cycle| p.shipped);
                    fixed_shipped.unwrap_or_else(|| match policy {
                        2 => epoch,
                        // shipped with the oldest root first, re-shipped with the newest afterwards
                        4 | 5 => if cycles.is_empty() { 0 } else { epoch },
                        _ => lo + r.usize_below(epoch + 1 - lo),
                    })
                },
                ts_v: 1 + r.below(3),
                snap_v: 1 + r.below(3),
                tg_v,
                listed_v,
                drop_listing: r.chance(1, 25),
            });
        }
        let note = if r.chance(1, 3) { 1 + r.below(4) as u8 } else { 0 };
        let deleg = if r.chance(1, 3) { 1 + r.below(3) as u8 } else { 0 };
        Sc { world: r.below(1_000_003), consistent: r.chance(1, 2), roots, cycles, note, deleg }
    }
    fn shrink(&self, sc: &Sc) -> Vec<Sc> {
        let mut v = Vec::new();
        for i in 0..sc.cycles.len() {
            if sc.cycles.len() > 2 {
                let mut c = sc.cycles.clone();
                c.remove(i);
                v.push(Sc { cycles: c, ..sc.clone() });
            }
        }
        if sc.consistent {
            v.push(Sc { consistent: false, ..sc.clone() });
        }
        if sc.note != 0 {
            v.push(Sc { note: 0, ..sc.clone() });
        }
        if sc.deleg != 0 {
            v.push(Sc { deleg: 0, ..sc.clone() });
        }
        // collapse root epochs: everyone uses epoch 0
        if sc.roots.len() > 1 {
            let mut c = sc.cycles.clone();
            for x in &mut c {
                x.root_epoch = 0;
                x.shipped = 0;
            }
            v.push(Sc { roots: vec![sc.roots[0].clone()], cycles: c, ..sc.clone() });
            // drop the last root if unused
            let maxe = sc.cycles.iter().map(|c| c.root_epoch).max().unwrap_or(0);
            if maxe + 1 < sc.roots.len() {
                v.push(Sc { roots: sc.roots[..=maxe].to_vec(), ..sc.clone() });
            }
        }
        for i in 0..sc.cycles.len() {
            let c = &sc.cycles[i];
            if c.shipped != c.root_epoch {
                let mut cs = sc.cycles.clone();
                cs[i].shipped = c.root_epoch;
                v.push(Sc { cycles: cs, ..sc.clone() });
            }
            if c.listed_v != c.tg_v {
                let mut cs = sc.cycles.clone();
                cs[i].listed_v = c.tg_v;
                v.push(Sc { cycles: cs, ..sc.clone() });
            }
        }
        for i in 0..sc.roots.len() {
            let simple = Auth { gen: 0, nkeys: 1, thr: 1 };
            let e = &sc.roots[i];
            if e.ts.nkeys > 1 || e.snap.nkeys > 1 || e.tg.nkeys > 1 {
                let mut rs = sc.roots.clone();
                rs[i].ts = Auth { gen: e.ts.gen, ..simple };
                rs[i].snap = Auth { gen: e.snap.gen, ..simple };
                rs[i].tg = Auth { gen: e.tg.gen, ..simple };
                v.push(Sc { roots: rs, ..sc.clone() });
            }
        }
        v
    }
    fn run(&self, sc: &Sc) -> Outcome {
        let mut o = Outcome::new();
        if sc.roots.is_empty() || sc.cycles.iter().any(|c| c.root_epoch >= sc.roots.len() || c.shipped > c.root_epoch) {
            o.harness("degenerate scenario");
            return o;
        }
        for w in sc.cycles.windows(2) {
            if w[1].root_epoch < w[0].root_epoch || w[1].shipped < w[0].shipped {
                o.harness("root epochs and shipped roots must not decrease");
                return o;
            }
        }
        let scratch = Scratch::new();
        let ds = scratch.dir("datastore");
        world::set_clock(Some(T0));
        o.ev(format!("cfg consistent={} note={} deleg={} roots={:?}", sc.consistent, sc.note, sc.deleg, sc.roots));
        // (cycle index, final root epoch, versions) of successful cycles
        let mut trusted: Vec<(usize, usize, Seen)> = Vec::new();
        let mut seen = Seen { ts: 0, snap: 0, tg: 0, listed: 0 };
        let mut failed_before = false;
        let mut any_replay = false;
        for (ci, c) in sc.cycles.iter().enumerate() {
            let files = build_state(sc.world, sc.consistent, &sc.roots, c, sc.note, sc.deleg);
            let shipped = files.meta.get(&format!("{}.root.json", c.shipped + 1)).cloned().unwrap();
            let meta = files.meta.clone();
            let transport = SimTransport::new(move |r| {
                if r.base == Base::Metadata {
                    meta.get(&r.rel).map_or(Resp::not_found(), |b| Resp::whole(b))
                } else {
                    Resp::not_found()
                }
            });
            let stored_before = world::list_dir(&ds);
            let ds2 = ds.clone();
            let t2 = transport.clone();
            let res = block_on(async move {
                match world::load(&shipped, t2, Some(&ds2), world::LoadOpts::default()).await {
                    Ok(repo) => {
                        let listed = repo.snapshot().signed.meta.get("targets.json").map(|m| m.version.get());
                        Ok((
                            repo.root().signed.version.get(),
                            repo.timestamp().signed.version.get(),
                            repo.snapshot().signed.version.get(),
                            repo.targets().signed.version.get(),
                            listed,
                        ))
                    }
                    Err(e) => Err((classify(&e), variant(&e))),
                }
            });
            o.ev(format!(
                "cycle {ci} epoch={} shipped={} served=({},{},{},{}{}) stored_before={:?} -> {:?}",
                c.root_epoch,
                c.shipped,
                c.ts_v,
                c.snap_v,
                c.tg_v,
                c.listed_v,
                if c.drop_listing { ",dropped" } else { "" },
                stored_before,
                res.as_ref().map_err(|e| (e.0.name(), e.1.clone()))
            ));
            let consistent_state = !c.drop_listing && c.listed_v == c.tg_v;
            // replay accounting (fired when the client actually fetched the file)
            let fetched = |name: &str| transport.log().iter().any(|l| l.rel.ends_with(name) && !l.fetch_failed);
            if ci > 0 {
                if c.ts_v < seen.ts && fetched("timestamp.json") {
                    o.fault("replayed_older_timestamp");
                    any_replay = true;
                }
                if c.snap_v < seen.snap && fetched("snapshot.json") {
                    o.fault("replayed_older_snapshot");
                    any_replay = true;
                }
                if c.tg_v < seen.tg && fetched("targets.json") {
                    o.fault("replayed_older_targets");
                    any_replay = true;
                }
                if c.listed_v < seen.listed && fetched("snapshot.json") {
                    o.fault("snapshot_lists_older_targets");
                    any_replay = true;
                }
                if failed_before {
                    o.fault("failed_cycle_in_between");
                }
                if sc.cycles[ci - 1].root_epoch != c.root_epoch && sc.roots[sc.cycles[ci - 1].root_epoch] != sc.roots[c.root_epoch] {
                    o.fault("role_keys_changed_by_newer_root");
                }
                if stored_before.iter().any(|f| f == "timestamp.json") {
                    o.probe("stored_file_verified_and_compared");
                }
            }
            match &res {
                Ok((rootv, tsv, snv, tgv, listed)) => {
                    let e_d = (*rootv as usize) - 1;
                    if (*tsv, *snv, *tgv) != (c.ts_v, c.snap_v, c.tg_v) {
                        o.harness("client reports versions that were not served");
                        break;
                    }
                    for (pc, e_c, t) in &trusted {
                        if e_d < *e_c {
                            continue;
                        }
                        let ch_ts = changed_between(&sc.roots, *e_c, e_d, |r| r.ts);
                        let ch_sn = changed_between(&sc.roots, *e_c, e_d, |r| r.snap);
                        let ch_tg = changed_between(&sc.roots, *e_c, e_d, |r| r.tg);
                        // Step 1.9 of the client compares the *shipped* root's timestamp/snapshot keys
                        // with the final root's and, when they differ, deletes the stored files.
                        // Name that input class in the key: some cycle after the trusting one (up
                        // to and including this one) shipped a root that is older than the root
                        // trusted back then and whose online keys differ from the newest root's.
                        let keyset = |a: &Auth| (a.gen, a.nkeys);
                        let predates = sc.cycles[*pc + 1..=ci].iter().any(|k| {
                            let sr = &sc.roots[k.shipped];
                            let fr = &sc.roots[k.root_epoch];
                            k.shipped < *e_c && (keyset(&sr.ts) != keyset(&fr.ts) || keyset(&sr.snap) != keyset(&fr.snap))
                        });
                        let older_ship = if predates { ":shipped-root-predates-online-key-change" } else { "" };
                        if !(ch_ts || ch_sn) {
                            if *tsv < t.ts {
                                o.violate(format!("timestamp-rollback{older_ship}"), format!("cycle {ci} succeeded with timestamp v{tsv} after cycle {pc} trusted v{}; no root in between changed timestamp/snapshot keys", t.ts));
                            }
                            if *snv < t.snap {
                                o.violate(format!("snapshot-rollback{older_ship}"), format!("cycle {ci} succeeded with snapshot v{snv} after cycle {pc} trusted v{}", t.snap));
                            }
                            match listed {
                                Some(l) if *l < t.listed => o.violate(
                                    format!("snapshot-listed-targets-rollback{older_ship}"),
                                    format!("cycle {ci} succeeded with a snapshot listing targets v{l} after cycle {pc} trusted one listing v{}", t.listed),
                                ),
                                None => o.violate(format!("snapshot-dropped-targets{older_ship}"), "snapshot without targets.json entry accepted"),
                                _ => {}
                            }
                        }
                        if !ch_tg && *tgv < t.tg {
                            o.violate(format!("targets-rollback{older_ship}"), format!("cycle {ci} succeeded with targets v{tgv} after cycle {pc} trusted v{}", t.tg));
                        }
                    }
                    if ci > 0 && (c.ts_v > seen.ts || c.snap_v > seen.snap || c.tg_v > seen.tg) {
                        o.probe("forward_move_accepted");
                    }
                    trusted.push((ci, e_d, Seen { ts: *tsv, snap: *snv, tg: *tgv, listed: listed.unwrap_or(0) }));
                }
                Err((class, var)) => {
                    failed_before = true;
                    if *class == Class::Rollback {
                        o.probe("rollback_rejected");
                        if consistent_state && c.ts_v >= seen.ts && c.snap_v >= seen.snap && c.tg_v >= seen.tg && c.listed_v >= seen.listed {
                            o.violate(
                                "forward-repository-locked-out",
                                format!("cycle {ci} serves versions at least as high as anything served before, yet failed with {var}"),
                            );
                        }
                    } else if consistent_state && !matches!(class, Class::Pin) {
                        o.harness(format!("consistent, genuinely signed state failed with {var} ({})", class.name()));
                        break;
                    }
                }
            }
            seen.ts = seen.ts.max(c.ts_v);
            seen.snap = seen.snap.max(c.snap_v);
            seen.tg = seen.tg.max(c.tg_v);
            if !c.drop_listing {
                seen.listed = seen.listed.max(c.listed_v);
            }
        }
        world::set_clock(None);
        o.nontrivial = any_replay || failed_before;
        o
    }
}
