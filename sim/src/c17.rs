//! C17 — updating a repository preserves everything that was not deliberately changed.

use crate::classify::variant;
use crate::edworld::*;
use crate::engine::{block_on, drain_blocking, Check, Outcome, Scratch, Tier};
use crate::json::{self, J};
use crate::keys;
use crate::prng::Rng;
use crate::publisher::*;
use crate::transport::{Base, Resp, SimTransport};
use crate::world::{self, sign_threshold, RoleNode};
use serde::{Deserialize, Serialize};
use serde_json::{json, Value};
use std::collections::BTreeMap;
use tough::editor::RepositoryEditor;
use tough::key_source::KeySource;

#[derive(Clone, Debug, Serialize, Deserialize)]
pub struct RoleSc {
    pub name: String,
    pub nkeys: u64,
    pub thr: u64,
    pub targets: Vec<TargetM>,
    pub child: Option<Box<RoleSc>>,
    pub extra: Vec<String>,
    /// the delegation entry of this role is marked terminating (the editor never writes that flag
    /// itself, other publishers do)
    #[serde(default)]
    pub terminating: bool,
}

#[derive(Clone, Debug, Serialize, Deserialize)]
pub struct Sc {
    pub world: u64,
    pub consistent: bool,
    pub top_targets: Vec<TargetM>,
    pub roles: Vec<RoleSc>,
    /// unknown top-level members of targets, snapshot, timestamp
    pub extra_targets: Vec<String>,
    pub extra_snapshot: Vec<String>,
    pub extra_timestamp: Vec<String>,
    pub added: Vec<TargetM>,
    pub new_versions: (u64, u64, u64),
}

pub struct C17;

const EXTRA_NAMES: [&str; 8] = ["x-vendor", "zz", "a b", "keep_me", "é", "build-id", "x", "_note"];

fn extra_value(name: &str, i: usize) -> J {
    match (name.len() + i) % 5 {
        4 => json::s("two lines\nand a tab\t, a control \u{1}, a quote \" and a backslash \\"),
        0 => json::s("kept across updates"),
        1 => json::n(20260922),
        2 => json::obj(vec![("nested", J::Arr(vec![json::n(1), json::s("two")])), ("flag", J::Bool(true))]),
        _ => J::Arr(vec![json::s("a"), J::Null]),
    }
}

fn role_keys(world: u64, base: u64, n: u64, thr: u64) -> RoleKeys {
    RoleKeys { keys: (0..n).map(|j| keys::ed(world, base + j)).collect(), threshold: thr }
}

fn to_node(world: u64, r: &RoleSc, counter: &mut u64) -> RoleNode {
    *counter += 10;
    let rk = role_keys(world, 800 + *counter, r.nkeys, r.thr);
    let mut node = RoleNode {
        name: r.name.clone(),
        signers: rk.keys.iter().take(r.thr as usize).cloned().collect(),
        keys: rk,
        paths: Paths::HashPrefixes(vec![String::new()]),
        terminating: r.terminating,
        version: 3,
        expires: T0 + 90 * DAY,
        targets: r
            .targets
            .iter()
            .map(|t| {
                let mut e = TargetEntry::of(&t.name, &t.content());
                e.custom = t.custom_json();
                e
            })
            .collect(),
        children: vec![],
        extra: r.extra.iter().enumerate().map(|(i, n)| (n.clone(), extra_value(n, i))).collect(),
    };
    if let Some(c) = &r.child {
        node.children.push(to_node(world, c, counter));
    }
    node
}

struct Original {
    shipped: Vec<u8>,
    meta: std::collections::HashMap<String, Vec<u8>>,
    targets_signed: J,
    role_signed: BTreeMap<String, J>,
}

fn build_original(sc: &Sc) -> Original {
    let w = sc.world;
    let (root_spec, root_doc) = editor_root(w, sc.consistent, &RoleKeys::one(&keys::ed(w, 4)));
    let mut counter = 0u64;
    let nodes: Vec<RoleNode> = sc.roles.iter().map(|r| to_node(w, r, &mut counter)).collect();
    let specs: Vec<DelegSpec> = nodes.iter().map(RoleNode::spec).collect();
    let entries: Vec<TargetEntry> = sc
        .top_targets
        .iter()
        .map(|t| {
            let mut e = TargetEntry::of(&t.name, &t.content());
            e.custom = t.custom_json();
            e
        })
        .collect();
    let mut tg = targets_signed(4, T0 + 60 * DAY, &entries, if specs.is_empty() { None } else { Some(&specs) });
    for (i, n) in sc.extra_targets.iter().enumerate() {
        tg.set(n, extra_value(n, i));
    }
    let tg_doc = sign_threshold(tg.clone(), &root_spec.targets);
    let tgb = tg_doc.bytes();
    let mut meta = std::collections::HashMap::new();
    let mut metas = vec![("targets.json".to_string(), Meta::of(4, &tgb, true, true))];
    let mut role_signed = BTreeMap::new();
    let mut all: Vec<&RoleNode> = Vec::new();
    for n in &nodes {
        n.walk(&mut all);
    }
    for r in all {
        let d = r.doc();
        let b = d.bytes();
        metas.push((format!("{}.json", r.name), Meta::of(r.version, &b, true, true)));
        role_signed.insert(r.name.clone(), d.signed.clone());
        let q = quote_role_name(&r.name);
        meta.insert(if sc.consistent { format!("{}.{q}.json", r.version) } else { format!("{q}.json") }, b);
    }
    let mut sn = snapshot_signed(5, T0 + 30 * DAY, &metas);
    for (i, n) in sc.extra_snapshot.iter().enumerate() {
        sn.set(n, extra_value(n, i + 1));
    }
    let snb = sign_threshold(sn, &root_spec.snapshot).bytes();
    let mut ts = timestamp_signed(6, T0 + 2 * DAY, &Meta::of(5, &snb, true, true));
    for (i, n) in sc.extra_timestamp.iter().enumerate() {
        ts.set(n, extra_value(n, i + 2));
    }
    let tsb = sign_threshold(ts, &root_spec.timestamp).bytes();
    meta.insert("1.root.json".into(), root_doc.bytes());
    meta.insert("timestamp.json".into(), tsb);
    meta.insert(if sc.consistent { "5.snapshot.json".into() } else { "snapshot.json".into() }, snb);
    meta.insert(if sc.consistent { "4.targets.json".into() } else { "targets.json".into() }, tgb);
    Original { shipped: root_doc.bytes(), meta, targets_signed: tg, role_signed }
}

fn gen_role(r: &mut Rng, name: &str, depth: usize) -> RoleSc {
    let nkeys = 1 + r.below(3);
    let thr = 1 + r.below(nkeys);
    let mut extra = Vec::new();
    if r.chance(1, 3) {
        extra.push((*r.pick(&EXTRA_NAMES)).to_string());
    }
    RoleSc {
        name: name.to_string(),
        nkeys,
        thr,
        targets: gen_targets(r, name, 3, false),
        child: if depth < 2 && r.chance(1, 3) { Some(Box::new(gen_role(r, &format!("{name}-sub"), depth + 1))) } else { None },
        extra,
        terminating: r.chance(1, 3),
    }
}

fn pick_extras(r: &mut Rng) -> Vec<String> {
    let mut v: Vec<String> = Vec::new();
    for _ in 0..r.usize_below(3) {
        let n = (*r.pick(&EXTRA_NAMES)).to_string();
        if !v.contains(&n) {
            v.push(n);
        }
    }
    v
}

impl Check for C17 {
    type Scenario = Sc;
    fn id(&self) -> &'static str {
        "C17"
    }
    fn rule(&self) -> String {
        "a foreign-publisher repository (0..4 top-level targets with custom data, in a third of the runs one of them under a name that needs resolution (alias/../n, ./n, a/b/../../n) and/or an added target that resolves to the same path as an existing one under another name, 0..2 delegated roles of depth <=2 (delegation entries terminating or not) with 1..3 keys / thresholds 1..3 and their own targets and unknown members, 0..2 unknown top-level members in each of targets, snapshot, timestamp) is loaded, passed through RepositoryEditor::from_repo with new versions/expirations and 0..3 added targets, signed, written and loaded again; non-trivial = the original carried at least one unknown member or delegated role and the update was written; distinct = distinct canonical trace".into()
    }
    fn assumptions(&self) -> Vec<String> {
        vec![
            "unknown members are placed at the top level of signed portions only (members inside delegations are C12's known finding)".into(),
            "the update is performed with the timestamp, snapshot and targets keys, as `tuftool update` does; delegated roles are not re-signed".into(),
        ]
    }
    fn components(&self) -> Value {
        json!({"real": ["tough load (before and after)", "RepositoryEditor::from_repo / add_target / sign (build_targets, build_snapshot, build_timestamp)", "SignedRepository::write"], "stub": ["transport (SimTransport over in-memory original, directory-backed for the reload)", "foreign publisher of the original", "clock (H1 fixed at T0)"]})
    }
    fn runs(&self, tier: Tier) -> u64 {
        match tier {
            Tier::Quick => 3_000,
            Tier::Thorough => 100_000,
        }
    }
    fn required_faults(&self, _t: Tier) -> Vec<&'static str> {
        vec!["unknown_member_in_targets", "unknown_member_in_snapshot", "unknown_member_in_timestamp", "delegated_roles_present", "custom_data_present", "target_name_needing_resolution"]
    }
    fn required_probes(&self, _t: Tier) -> Vec<&'static str> {
        vec!["update_written_and_reloaded", "everything_preserved"]
    }
    fn generate(&self, seed: u64, _tier: Tier) -> Sc {
        let mut r = Rng::new(seed);
        let mut roles = Vec::new();
        for j in 0..r.usize_below(3) {
            // sibling roles are listed in an order that is not the alphabetical one: the order of
            // delegation entries is their priority and has to survive an update
            roles.push(gen_role(&mut r, &format!("{}{j}", ["zeta", "mid", "alpha"][j % 3]), 1));
        }
        let mut added = gen_targets(&mut r, "new", 3, false);
        let mut top_targets = gen_targets(&mut r, "top", 4, false);
        // names that need resolution, and additions that resolve to the same path as an existing
        // target without being the same name (both are distinct targets and both must survive)
        if !top_targets.is_empty() && r.chance(1, 3) {
            let i = r.usize_below(top_targets.len());
            let plain = top_targets[i].name.clone();
            let alias = match r.below(3) {
                0 => format!("alias/../{plain}"),
                1 => format!("./{plain}"),
                _ => format!("a/b/../../{plain}"),
            };
            match r.below(3) {
                // the existing target is path-like, the addition is the plain spelling
                0 => {
                    top_targets[i].name = alias;
                    added.push(TargetM { name: plain, size: 1 + r.usize_below(64), seed: r.next_u64(), custom: 0 });
                }
                // the existing target is plain, the addition is a path-like spelling
                1 => added.push(TargetM { name: alias, size: 1 + r.usize_below(64), seed: r.next_u64(), custom: 0 }),
                // only the existing target is path-like
                _ => top_targets[i].name = alias,
            }
        }
        Sc {
            world: r.below(1_000_003),
            consistent: r.chance(1, 2),
            top_targets,
            roles,
            extra_targets: pick_extras(&mut r),
            extra_snapshot: pick_extras(&mut r),
            extra_timestamp: pick_extras(&mut r),
            added,
            new_versions: (5 + r.below(5), 6 + r.below(5), 7 + r.below(5)),
        }
    }
    fn shrink(&self, sc: &Sc) -> Vec<Sc> {
        let mut v = Vec::new();
        if sc.consistent {
            v.push(Sc { consistent: false, ..sc.clone() });
        }
        if !sc.added.is_empty() {
            v.push(Sc { added: vec![], ..sc.clone() });
        }
        for i in 0..sc.roles.len() {
            let mut s = sc.clone();
            s.roles.remove(i);
            v.push(s);
        }
        if !sc.top_targets.is_empty() {
            v.push(Sc { top_targets: vec![], ..sc.clone() });
        }
        if !sc.extra_targets.is_empty() {
            v.push(Sc { extra_targets: vec![], ..sc.clone() });
        }
        if !sc.extra_snapshot.is_empty() {
            v.push(Sc { extra_snapshot: vec![], ..sc.clone() });
            if sc.extra_snapshot.len() > 1 {
                v.push(Sc { extra_snapshot: sc.extra_snapshot[..1].to_vec(), ..sc.clone() });
            }
        }
        if !sc.extra_timestamp.is_empty() {
            v.push(Sc { extra_timestamp: vec![], ..sc.clone() });
        }
        v
    }
    fn run(&self, sc: &Sc) -> Outcome {
        let mut o = Outcome::new();
        let w = sc.world;
        let orig = build_original(sc);
        world::set_clock(Some(T0));
        o.ev(format!(
            "cfg consistent={} top={} roles={:?} extras=({:?},{:?},{:?}) added={} versions={:?}",
            sc.consistent, sc.top_targets.len(), sc.roles.iter().map(|r| (r.name.as_str(), r.nkeys, r.thr, r.targets.len(), r.child.is_some(), r.terminating)).collect::<Vec<_>>(),
            sc.extra_targets, sc.extra_snapshot, sc.extra_timestamp, sc.added.len(), sc.new_versions
        ));
        if !sc.extra_targets.is_empty() {
            o.fault("unknown_member_in_targets");
        }
        if !sc.extra_snapshot.is_empty() {
            o.fault("unknown_member_in_snapshot");
        }
        if !sc.extra_timestamp.is_empty() {
            o.fault("unknown_member_in_timestamp");
        }
        if !sc.roles.is_empty() {
            o.fault("delegated_roles_present");
        }
        if sc.top_targets.iter().any(|t| t.custom != 0) {
            o.fault("custom_data_present");
        }
        if sc.top_targets.iter().chain(sc.added.iter()).any(|t| t.name.contains("/../") || t.name.starts_with("./")) {
            o.fault("target_name_needing_resolution");
        }
        let meta = orig.meta.clone();
        let transport = SimTransport::new(move |r| if r.base == Base::Metadata { meta.get(&r.rel).map_or(Resp::not_found(), |b| Resp::whole(b)) } else { Resp::not_found() });
        let shipped = orig.shipped.clone();
        let repo = match block_on(async { world::load(&shipped, transport, None, world::LoadOpts::default()).await }) {
            Ok(r) => r,
            Err(e) => {
                world::set_clock(None);
                o.harness(format!("original repository does not load: {}", variant(&e)));
                return o;
            }
        };
        let scratch = Scratch::new();
        let dir = scratch.dir("upd");
        let root_path = dir.join("root.json");
        std::fs::write(&root_path, &orig.shipped).unwrap();
        let meta_dir = dir.join("metadata");
        let res: Result<(), String> = block_on(async {
            let mut ed = RepositoryEditor::from_repo(&root_path, repo).await.map_err(|e| format!("from_repo: {}", variant(&e)))?;
            ed.targets_version(nz(sc.new_versions.0)).map_err(|e| variant(&e))?.targets_expires(dt(T0 + 61 * DAY)).map_err(|e| variant(&e))?;
            ed.snapshot_version(nz(sc.new_versions.1)).snapshot_expires(dt(T0 + 31 * DAY)).timestamp_version(nz(sc.new_versions.2)).timestamp_expires(dt(T0 + 3 * DAY));
            for t in &sc.added {
                ed.add_target(t.name.as_str(), t.to_target()).map_err(|e| format!("add_target: {}", variant(&e)))?;
            }
            let keys: Vec<Box<dyn KeySource>> = vec![keys::ed(w, 2).source(), keys::ed(w, 3).source(), keys::ed(w, 4).source()];
            let signed = ed.sign(&keys).await.map_err(|e| format!("sign: {}", variant(&e)))?;
            signed.write(&meta_dir).await.map_err(|e| format!("write: {}", variant(&e)))?;
            Ok(())
        });
        drain_blocking();
        o.ev(format!("update -> {res:?}"));
        if let Err(e) = res {
            world::set_clock(None);
            o.violate(format!("update-refused:{}", e.split(':').next().unwrap_or("")), format!("loading, bumping versions and re-signing an existing repository failed: {e}"));
            return o;
        }
        let t2 = dir_transport(meta_dir.clone(), dir.join("targets"), None);
        let shipped = orig.shipped.clone();
        let re = block_on(async { world::load(&shipped, t2, None, world::LoadOpts::default()).await });
        world::set_clock(None);
        let re = match re {
            Ok(r) => r,
            Err(e) => {
                o.violate(format!("updated-repository-does-not-load:{}", crate::classify::classify(&e).name()), format!("the re-signed repository fails to load with {}", variant(&e)));
                return o;
            }
        };
        o.probe("update_written_and_reloaded");
        let mut problems: Vec<(String, String)> = Vec::new();
        // ---- targets: old ∪ added, custom data intact
        let mut want: Vec<TargetM> = sc.top_targets.clone();
        for a in &sc.added {
            want.retain(|t| t.name != a.name);
            want.push(a.clone());
        }
        let model = RoleM { name: "targets".into(), keys: vec![], thr: 1, paths: vec![], version: sc.new_versions.0, expires_days: 61, targets: want, children: vec![], noise: 0 };
        {
            // reuse the target comparison of the editor world (names, lengths, digests, custom)
            let mut only_targets = compare(&re, w, &model, sc.new_versions.1, sc.new_versions.2);
            only_targets.retain(|m| m.starts_with("targets:") || m.contains("version"));
            for m in only_targets {
                problems.push(("target-set-or-version-changed".into(), m));
            }
        }
        // ---- unknown top-level members
        let exposed = |v: Result<Value, serde_json::Error>| v.ok().and_then(|x| J::try_from_value(&x));
        let check_extras = |what: &str, names: &[String], doc: Option<J>, base_i: usize, problems: &mut Vec<(String, String)>| {
            let Some(doc) = doc else {
                problems.push((format!("unknown-member-dropped:{what}"), "document does not serialise".into()));
                return;
            };
            for (i, n) in names.iter().enumerate() {
                let want = extra_value(n, i + base_i);
                match doc.get(n) {
                    None => problems.push((format!("unknown-member-dropped:{what}"), format!("member {n:?} of the original {what} is gone after the update"))),
                    Some(v) if json::canon(v) != json::canon(&want) => problems.push((format!("unknown-member-altered:{what}"), format!("member {n:?} of {what} changed"))),
                    _ => {}
                }
            }
        };
        check_extras("targets", &sc.extra_targets, exposed(serde_json::to_value(&re.targets().signed)), 0, &mut problems);
        check_extras("snapshot", &sc.extra_snapshot, exposed(serde_json::to_value(&re.snapshot().signed)), 1, &mut problems);
        check_extras("timestamp", &sc.extra_timestamp, exposed(serde_json::to_value(&re.timestamp().signed)), 2, &mut problems);
        // ---- delegation structure and delegated roles' signed content
        let new_tg = exposed(serde_json::to_value(&re.targets().signed));
        let d_old = orig.targets_signed.get("delegations").and_then(json::canon);
        let d_new = new_tg.as_ref().and_then(|j| j.get("delegations")).and_then(json::canon);
        if d_old != d_new && !(d_old.is_none() && d_new.as_deref() == Some(br#"{"keys":{},"roles":[]}"#.as_slice())) {
            problems.push(("delegation-structure-changed".into(), "signed.delegations of targets differs from the original".into()));
        }
        for (name, signed) in &orig.role_signed {
            match re.delegated_role(name).and_then(|d| d.targets.as_ref()) {
                None => problems.push(("delegated-role-dropped".into(), format!("role {name} is gone after the update"))),
                Some(t) => {
                    let now = exposed(serde_json::to_value(&t.signed)).and_then(|j| json::canon(&j));
                    if now != json::canon(signed) {
                        problems.push(("delegated-role-content-changed".into(), format!("signed content of role {name} differs from the original")));
                    }
                }
            }
        }
        if let Some((k, d)) = problems.first() {
            o.violate(k.clone(), format!("{} problem(s), first: {d}", problems.len()));
        } else {
            o.probe("everything_preserved");
        }
        o.nontrivial = !sc.roles.is_empty() || !sc.extra_targets.is_empty() || !sc.extra_snapshot.is_empty() || !sc.extra_timestamp.is_empty();
        o
    }
}
