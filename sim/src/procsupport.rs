//! Support for engine E3 (process-level simulation): `simworld client` is the traced client
//! process, `simworld mkrepo` writes repository states to disk with the foreign publisher.
//!
//! The client prints nothing (so that its main thread issues none of the injected syscalls) and
//! reports its outcome through the exit status only.

use crate::classify::{classify, Class};
use crate::keys;
use crate::publisher::*;
use crate::world::{self, RepoSpec, RoleNode};
use std::path::PathBuf;
use tough::{ExpirationEnforcement, FilesystemTransport, Prefix, RepositoryLoader, TargetName};
use url::Url;

fn arg(args: &[String], name: &str) -> Option<String> {
    args.iter().position(|a| a == name).and_then(|i| args.get(i + 1)).cloned()
}

/// exit status: 0 success; 20 + class index for a tough error; 3 for usage / harness trouble
fn class_code(c: Class) -> i32 {
    20 + match c {
        Class::Signature => 0,
        Class::Rollback => 1,
        Class::Expiry => 2,
        Class::Clock => 3,
        Class::Pin => 4,
        Class::Size => 5,
        Class::Path => 6,
        Class::Parse => 7,
        Class::Transport => 8,
        Class::Datastore => 9,
        Class::Other => 10,
    }
}

pub fn client(args: &[String]) -> i32 {
    let (Some(root), Some(meta), Some(targets), Some(ds)) = (arg(args, "--root"), arg(args, "--meta"), arg(args, "--targets"), arg(args, "--datastore")) else {
        return 3;
    };
    let op = arg(args, "--op").unwrap_or_else(|| "load".into());
    let out = arg(args, "--out");
    let name = arg(args, "--name");
    let Ok(root_bytes) = std::fs::read(&root) else { return 3 };
    let Ok(meta_url) = Url::from_directory_path(PathBuf::from(&meta)) else { return 3 };
    let Ok(targets_url) = Url::from_directory_path(PathBuf::from(&targets)) else { return 3 };
    // one blocking thread: every tokio::fs call of the client happens on one thread, in order, so
    // that strace's per-thread `when=` counter is a total order over the datastore I/O
    let rt = match tokio::runtime::Builder::new_current_thread().enable_all().max_blocking_threads(1).build() {
        Ok(r) => r,
        Err(_) => return 3,
    };
    rt.block_on(async move {
        let loaded = RepositoryLoader::new(&root_bytes, meta_url, targets_url)
            .transport(FilesystemTransport)
            .datastore(PathBuf::from(ds))
            .expiration_enforcement(ExpirationEnforcement::Safe)
            .load()
            .await;
        let repo = match loaded {
            Ok(r) => r,
            Err(e) => return class_code(classify(&e)),
        };
        match op.as_str() {
            "load" => 0,
            "cache" => {
                let Some(out) = out else { return 3 };
                let o = PathBuf::from(out);
                match repo.cache(o.join("metadata"), o.join("targets"), None::<&[&str]>, true).await {
                    Ok(()) => 0,
                    Err(e) => class_code(classify(&e)),
                }
            }
            "save" => {
                let (Some(out), Some(name)) = (out, name) else { return 3 };
                let Ok(tn) = TargetName::new(name) else { return 3 };
                match repo.save_target(&tn, PathBuf::from(out), Prefix::None).await {
                    Ok(()) => 0,
                    Err(e) => class_code(classify(&e)),
                }
            }
            _ => 3,
        }
    })
}

/// `simworld mkrepo --out DIR --world N --versions ROOT,TS,SNAP,TARGETS[,DELEG] [--consistent]
///  [--rotate-at V] [--rotate-keep] [--target NAME:SIZE]...` writes `DIR/metadata`, `DIR/targets` and `DIR/root.json`
/// (version 1, the shipped root). Keys depend only on the world number, so states written by
/// separate invocations belong to one repository history.
pub fn mkrepo(args: &[String]) -> i32 {
    let Some(out) = arg(args, "--out") else { return 3 };
    let world: u64 = arg(args, "--world").and_then(|s| s.parse().ok()).unwrap_or(1);
    let versions: Vec<u64> = arg(args, "--versions").unwrap_or_else(|| "1,1,1,1".into()).split(',').filter_map(|s| s.parse().ok()).collect();
    if versions.len() < 4 {
        return 3;
    }
    let consistent = args.iter().any(|a| a == "--consistent");
    // from this root version on, the timestamp and snapshot keys are different ones
    let rotate_at: u64 = arg(args, "--rotate-at").and_then(|s| s.parse().ok()).unwrap_or(u64::MAX);
    // --rotate-keep: timestamp and snapshot have two keys each (threshold 1) from the start; the
    // rotation replaces the second one and keeps the first, so that documents signed before the
    // rotation (by the first key) still verify under the newer root
    let keep = args.iter().any(|a| a == "--rotate-keep");
    let root_spec = |v: u64| {
        let gen = if v >= rotate_at { 50 } else { 0 };
        let online = |base: u64| {
            if keep {
                RoleKeys { keys: vec![keys::ed(world, base), keys::ed(world, base + 20 + gen)], threshold: 1 }
            } else {
                RoleKeys::one(&keys::ed(world, base + gen))
            }
        };
        RootSpec {
            version: v,
            expires: FAR,
            consistent_snapshot: consistent,
            root: RoleKeys::one(&keys::ed(world, 1)),
            timestamp: online(2),
            snapshot: online(3),
            targets: RoleKeys::one(&keys::ed(world, 4)),
        }
    };
    // sign the online roles with the keys of this root version (default: the newest one); lets a
    // directory publish newer roots next to metadata that was genuinely signed before a rotation
    let sign_as: u64 = arg(args, "--sign-as-root").and_then(|s| s.parse().ok()).unwrap_or(versions[0]);
    let mut spec = RepoSpec::basic(world, consistent);
    spec.root = root_spec(sign_as);
    spec.ts_version = versions[1];
    spec.snap_version = versions[2];
    spec.targets_version = versions[3];
    let mut i = 0;
    while i < args.len() {
        if args[i] == "--target" {
            if let Some((n, sz)) = args.get(i + 1).and_then(|t| t.split_once(':')) {
                let size: usize = sz.parse().unwrap_or(0);
                let body = crate::prng::Rng::new(crate::prng::hash_str(n)).bytes(size);
                spec.add_target(n, &body);
            }
        }
        i += 1;
    }
    if let Some(dv) = versions.get(4) {
        let mut role = RoleNode::simple(world, 30, "delegated", &["d/*"]);
        role.version = *dv;
        role.targets.push(TargetEntry::of("d/x.bin", b"delegated target"));
        spec.contents.push(("d/x.bin".into(), b"delegated target".to_vec()));
        spec.delegated.push(role);
    }
    let built = world::build(&spec);
    let o = PathBuf::from(out);
    let (m, t) = (o.join("metadata"), o.join("targets"));
    if std::fs::create_dir_all(&m).is_err() || std::fs::create_dir_all(&t).is_err() {
        return 3;
    }
    for (k, v) in &built.files.meta {
        if k.ends_with(".root.json") {
            continue;
        }
        if std::fs::write(m.join(k), v).is_err() {
            return 3;
        }
    }
    for v in 1..=versions[0] {
        let d = Doc::signed_by(root_spec(v).signed(), &[keys::ed(world, 1)]);
        if std::fs::write(m.join(format!("{v}.root.json")), d.bytes()).is_err() {
            return 3;
        }
        if v == 1 && std::fs::write(o.join("root.json"), d.bytes()).is_err() {
            return 3;
        }
    }
    for (k, v) in &built.files.targets {
        let p = t.join(k);
        if let Some(parent) = p.parent() {
            let _ = std::fs::create_dir_all(parent);
        }
        if std::fs::write(p, v).is_err() {
            return 3;
        }
    }
    0
}

/// `simworld dumpkeys --out DIR`: write signing key files in the encodings tuftool accepts and a
/// `keys.json` describing them (file name, key id by the reference canonicaliser, public key object).
pub fn dumpkeys(args: &[String]) -> i32 {
    use aws_lc_rs::signature::Ed25519KeyPair;
    let Some(out) = arg(args, "--out") else { return 3 };
    let o = PathBuf::from(out);
    if std::fs::create_dir_all(&o).is_err() {
        return 3;
    }
    let pool = keys::pool();
    let mut entries = Vec::new();
    let mut put = |file: &str, k: &keys::K| {
        let _ = std::fs::write(o.join(file), &k.private);
        entries.push(serde_json::json!({"file": file, "alg": format!("{:?}", k.alg), "keyid": k.id, "key": k.json.to_value()}));
    };
    for i in 0..2 {
        put(&format!("rsa{i}.pem"), &pool.rsa[i]);
        put(&format!("ecdsa{i}.der"), &pool.ecdsa[i]);
    }
    // Ed25519: PKCS#8 v2 documents generated by aws-lc (what `parse_keypair` is known to accept)
    let rng = aws_lc_rs::rand::SystemRandom::new();
    for i in 0..2 {
        let Ok(doc) = Ed25519KeyPair::generate_pkcs8(&rng) else { return 3 };
        let Ok(kp) = Ed25519KeyPair::from_pkcs8(doc.as_ref()) else { return 3 };
        use aws_lc_rs::signature::KeyPair;
        let public = hex::encode(kp.public_key().as_ref());
        let json = crate::json::obj(vec![
            ("keytype", crate::json::s("ed25519")),
            ("keyval", crate::json::obj(vec![("public", crate::json::J::Str(public))])),
            ("scheme", crate::json::s("ed25519")),
        ]);
        let id = crate::json::sha256_hex(&crate::json::canon(&json).unwrap());
        let file = format!("ed{i}.der");
        let _ = std::fs::write(o.join(&file), doc.as_ref());
        entries.push(serde_json::json!({"file": file, "alg": "Ed25519", "keyid": id, "key": json.to_value()}));
    }
    let _ = std::fs::write(o.join("keys.json"), serde_json::to_string_pretty(&entries).unwrap());
    0
}

/// `simworld verifyroot FILE`: facts about a root.json for the C20 oracle, printed as JSON:
/// parses as a root, every key id is the digest of its key (reference canonical form), number of
/// distinct root keys with a valid signature (Ed25519 signatures are checked independently with
/// aws-lc over the reference canonical form; other algorithms through the tough library).
pub fn verifyroot(args: &[String]) -> i32 {
    use crate::json::{self, J};
    let Some(file) = args.first() else { return 3 };
    let Ok(bytes) = std::fs::read(file) else { return 3 };
    let mut out = serde_json::json!({"parses_as_json": false, "parses_as_root": false, "keyids_ok": false, "library_verifies": false, "independent_valid_ed25519": 0, "root_threshold": 0, "signatures": 0});
    if let Some(j) = J::parse(&bytes) {
        out["parses_as_json"] = true.into();
        let signed = j.get("signed").cloned().unwrap_or(J::Null);
        let mut ok = true;
        for (id, key) in signed.get("keys").map(J::members).unwrap_or(&[]) {
            if json::canon(key).map(|c| json::sha256_hex(&c)) != Some(id.to_lowercase()) {
                ok = false;
            }
        }
        out["keyids_ok"] = ok.into();
        out["signatures"] = j.get("signatures").map(|s| s.items().len()).unwrap_or(0).into();
        let root_role = signed.get("roles").and_then(|r| r.get("root"));
        out["root_threshold"] = root_role.and_then(|r| r.get("threshold")).and_then(J::as_u64).unwrap_or(0).into();
        let root_ids: Vec<String> = root_role.and_then(|r| r.get("keyids")).map(J::items).unwrap_or(&[]).iter().filter_map(|x| x.as_str().map(str::to_string)).collect();
        let canon = json::canon(&signed).unwrap_or_default();
        let mut valid = std::collections::BTreeSet::new();
        for s in j.get("signatures").map(J::items).unwrap_or(&[]) {
            let (Some(kid), Some(sig)) = (s.get("keyid").and_then(J::as_str), s.get("sig").and_then(J::as_str)) else { continue };
            if !root_ids.iter().any(|r| r == kid) {
                continue;
            }
            let Some(key) = signed.get("keys").and_then(|k| k.get(kid)) else { continue };
            if key.get("keytype").and_then(J::as_str) == Some("ed25519") {
                let (Some(pk), Ok(sigb)) = (key.get("keyval").and_then(|v| v.get("public")).and_then(J::as_str).and_then(|h| hex::decode(h).ok()), hex::decode(sig)) else { continue };
                let upk = aws_lc_rs::signature::UnparsedPublicKey::new(&aws_lc_rs::signature::ED25519, pk);
                if upk.verify(&canon, &sigb).is_ok() {
                    valid.insert(kid.to_string());
                }
            }
        }
        out["independent_valid_ed25519"] = valid.len().into();
    }
    if let Ok(root) = serde_json::from_slice::<tough::schema::Signed<tough::schema::Root>>(&bytes) {
        out["parses_as_root"] = true.into();
        out["library_verifies"] = root.signed.verify_role(&root).is_ok().into();
    }
    println!("{out}");
    0
}
