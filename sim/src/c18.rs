//! C18 — HTTP transport yields exactly the resource bytes or an error, retries bounded.
//! Engine E2: tough's real `HttpTransport` / `RetryStream` on a paused tokio clock; hook H3 routes
//! every built request to a scripted server model instead of `reqwest::Client::execute`.

use crate::engine::{block_on_paused, Check, Outcome, Tier};
use crate::prng::Rng;
use bytes::Bytes;
use futures::StreamExt;
use serde::{Deserialize, Serialize};
use serde_json::{json, Value};
use std::sync::{Arc, Mutex};
use std::time::Duration;
use tough::{HttpTransportBuilder, Transport, TransportErrorKind};

#[derive(Clone, Copy, Debug, Serialize, Deserialize, PartialEq, Eq)]
pub enum Kind {
    Full,
    /// 200, body stalls after this many bytes of what it would send, then times out
    Stall(usize),
    S500,
    S503,
    S403,
    S404,
    S410,
    S400,
    S416,
}

#[derive(Clone, Debug, Serialize, Deserialize)]
pub struct Sc {
    pub tries: u32,
    pub size: usize,
    pub content_seed: u64,
    pub range_support: bool,
    /// a server without range support that says so explicitly (`Accept-Ranges: none`) instead of
    /// leaving the header out; only meaningful when `range_support` is false
    #[serde(default)]
    pub announce_none: bool,
    pub script: Vec<Kind>,
    pub chunk: usize,
    pub initial_backoff_ms: u64,
    pub max_backoff_ms: u64,
    pub backoff_factor_x10: u32,
    pub timeout_ms: u64,
}

pub struct C18;

#[derive(Clone, Debug)]
struct Seen {
    range: Option<String>,
    at_ms: u128,
}

#[derive(Clone, Copy, Debug, PartialEq, Eq)]
enum Expect {
    Complete,
    NotFound,
    Fatal,
    /// transient failures used up the retry budget, or a resume was not possible
    GaveUp,
}

/// Reference client: what a correct transport with `tries` attempts does against the script.
fn reference(sc: &Sc) -> (Expect, usize) {
    let mut yielded = 0usize;
    let mut announced = false;
    let mut requests = 0usize;
    for attempt in 0..sc.tries as usize {
        requests += 1;
        let k = sc.script.get(attempt).copied().unwrap_or(Kind::Full);
        match k {
            Kind::Full => return (Expect::Complete, requests),
            Kind::Stall(n) => {
                if sc.range_support {
                    announced = true;
                }
                let remaining = sc.size - yielded;
                let got = n.min(remaining.saturating_sub(1)).min(remaining);
                yielded += got;
                // may we ask again?
                if !(announced || yielded == 0) {
                    return (Expect::GaveUp, requests);
                }
            }
            Kind::S500 | Kind::S503 => {}
            Kind::S403 | Kind::S404 | Kind::S410 => return (Expect::NotFound, requests),
            Kind::S400 | Kind::S416 => return (Expect::Fatal, requests),
        }
    }
    (Expect::GaveUp, requests)
}

const KINDS: [Kind; 9] = [Kind::Full, Kind::Stall(0), Kind::S500, Kind::S503, Kind::S403, Kind::S404, Kind::S410, Kind::S400, Kind::S416];

fn n_scripts(max_len: u32) -> u64 {
    (0..=max_len).map(|l| 9u64.pow(l)).sum()
}

fn script_of(mut i: u64, size: usize) -> Vec<Kind> {
    let mut len = 0u32;
    loop {
        let b = 9u64.pow(len);
        if i < b {
            break;
        }
        i -= b;
        len += 1;
    }
    let mut v = Vec::new();
    for j in 0..len {
        let k = KINDS[(i % 9) as usize];
        i /= 9;
        v.push(match k {
            // vary the stall position with the position in the script
            Kind::Stall(_) => Kind::Stall(if size == 0 { 0 } else { (j as usize) % size.max(1) }),
            x => x,
        });
    }
    v
}

impl Check for C18 {
    type Scenario = Sc;
    fn id(&self) -> &'static str {
        "C18"
    }
    fn level(&self) -> &'static str {
        "fault_enumeration"
    }
    fn rule(&self) -> String {
        "fault scripts over {200 full, 200 stalled after k bytes, 500, 503, 403, 404, 410, 400, 416} answered request by request, by a server that announces Accept-Ranges: bytes, announces Accept-Ranges: none, or leaves the header out; enumerated completely for resource sizes 0..2 bytes (quick: tries 1..2, scripts up to tries+2; thorough: tries 1..4) and seeded for sizes up to 256 KiB with randomised back-off, time-out and body chunking; non-trivial = at least one fault entry of the script was consumed by the client; distinct = distinct canonical trace".into()
    }
    fn assumptions(&self) -> Vec<String> {
        vec![
            "reqwest / hyper / TCP / TLS / DNS are stubbed by hook H3: the responder receives the real reqwest::Request built by tough and returns a real reqwest::Response synthesised from http::Response".into(),
            "stalls are modelled in the body phase only; connection-level errors (is_request()) cannot be constructed outside reqwest".into(),
            "a stalled body never delivers the whole remaining resource before stalling (a real server would answer a range starting at the end with 416)".into(),
        ]
    }
    fn components(&self) -> Value {
        json!({"real": ["tough HttpTransport::fetch", "RetryStream state machine", "may_retry / back-off arithmetic", "build_request (Range header)", "parse_response_code / ErrorClass", "tokio timers (paused clock)"], "stub": ["reqwest::Client::execute (hook H3)", "HTTP server model", "wall clock (tokio paused time)"]})
    }
    fn enumerated(&self, tier: Tier) -> u64 {
        // sizes 0,1,2 x range header (absent, bytes, none) x tries x scripts up to tries+2
        let tries_max = if tier == Tier::Quick { 2 } else { 4 };
        (1..=tries_max).map(|t| 3 * 3 * n_scripts(t + 2)).sum()
    }
    fn exhaustive(&self, tier: Tier) -> bool {
        tier == Tier::Thorough
    }
    fn enumerate(&self, mut index: u64, tier: Tier) -> Option<Sc> {
        let tries_max = if tier == Tier::Quick { 2 } else { 4 };
        for t in 1..=tries_max {
            let block = 3 * 3 * n_scripts(t + 2);
            if index < block {
                let size = (index % 3) as usize;
                let range_support = (index / 3) % 3 == 1;
                let announce_none = (index / 3) % 3 == 2;
                let si = index / 9;
                return Some(Sc {
                    tries: t,
                    size,
                    content_seed: si,
                    range_support,
                    announce_none,
                    script: script_of(si, size),
                    chunk: 1,
                    initial_backoff_ms: 100,
                    max_backoff_ms: 1000,
                    backoff_factor_x10: 15,
                    timeout_ms: 30_000,
                });
            }
            index -= block;
        }
        None
    }
    fn runs(&self, tier: Tier) -> u64 {
        match tier {
            Tier::Quick => 40_000,
            Tier::Thorough => 1_000_000,
        }
    }
    fn generate(&self, seed: u64, _tier: Tier) -> Sc {
        let mut r = Rng::new(seed);
        let tries = 1 + r.below(4) as u32;
        let size = match r.below(6) {
            0 => r.usize_below(3),
            1 => 1024,
            2 => 64 * 1024,
            3 => 256 * 1024,
            _ => r.usize_below(5000),
        };
        let len = r.usize_below(tries as usize + 3);
        let script = (0..len)
            .map(|_| match if r.chance(1, 2) { *r.pick(&[Kind::Stall(0), Kind::S500, Kind::S503]) } else { *r.pick(&KINDS) } {
                Kind::Stall(_) => Kind::Stall(if size == 0 { 0 } else { r.usize_below(size) }),
                k => k,
            })
            .collect();
        Sc {
            tries,
            size,
            content_seed: r.next_u64(),
            range_support: r.chance(1, 2),
            announce_none: r.chance(1, 2),
            script,
            chunk: *r.pick(&[1usize, 7, 1000, 16384, 1 << 20]),
            initial_backoff_ms: *r.pick(&[0u64, 1, 100, 5000]),
            max_backoff_ms: *r.pick(&[0u64, 50, 1000, 3_600_000]),
            backoff_factor_x10: *r.pick(&[10u32, 15, 20, 100]),
            timeout_ms: *r.pick(&[1u64, 30_000, 600_000]),
        }
    }
    fn shrink(&self, sc: &Sc) -> Vec<Sc> {
        let mut v = Vec::new();
        for i in 0..sc.script.len() {
            let mut s = sc.script.clone();
            s.remove(i);
            v.push(Sc { script: s, ..sc.clone() });
        }
        if sc.size > 2 {
            let script = sc.script.iter().map(|k| if let Kind::Stall(n) = k { Kind::Stall(n % 2) } else { *k }).collect();
            v.push(Sc { size: 2, script, ..sc.clone() });
        }
        if sc.tries > 1 {
            v.push(Sc { tries: sc.tries - 1, ..sc.clone() });
        }
        if sc.chunk != 1 << 20 {
            v.push(Sc { chunk: 1 << 20, ..sc.clone() });
        }
        if (sc.initial_backoff_ms, sc.max_backoff_ms, sc.backoff_factor_x10, sc.timeout_ms) != (100, 1000, 15, 30_000) {
            v.push(Sc { initial_backoff_ms: 100, max_backoff_ms: 1000, backoff_factor_x10: 15, timeout_ms: 30_000, ..sc.clone() });
        }
        v
    }
    fn required_faults(&self, _t: Tier) -> Vec<&'static str> {
        vec!["status_5xx", "stalled_body", "status_not_found_class", "status_client_error", "resume_with_range"]
    }
    fn required_probes(&self, _t: Tier) -> Vec<&'static str> {
        vec!["completed_after_transient_failures", "gave_up_within_budget", "file_not_found_reported", "fatal_without_retry"]
    }
    fn run(&self, sc: &Sc) -> Outcome {
        let mut o = Outcome::new();
        if sc.tries == 0 {
            o.harness("tries must be >= 1");
            return o;
        }
        let resource: Arc<Vec<u8>> = Arc::new(Rng::new(sc.content_seed).bytes(sc.size));
        let seen: Arc<Mutex<Vec<Seen>>> = Arc::new(Mutex::new(Vec::new()));
        let script = sc.script.clone();
        let (range_support, chunk, timeout_ms) = (sc.range_support, sc.chunk.max(1), sc.timeout_ms);
        let announce_none = sc.announce_none && !sc.range_support;
        let res2 = resource.clone();
        let seen2 = seen.clone();
        let start = Arc::new(Mutex::new(None::<tokio::time::Instant>));
        let start2 = start.clone();
        let responder: tough::verif_hooks::Responder = Arc::new(move |req: reqwest::Request| {
            let range = req.headers().get(reqwest::header::RANGE).and_then(|v| v.to_str().ok()).map(str::to_string);
            let idx = {
                let mut s = seen2.lock().unwrap();
                let t0 = start2.lock().unwrap().unwrap_or_else(tokio::time::Instant::now);
                s.push(Seen { range: range.clone(), at_ms: tokio::time::Instant::now().duration_since(t0).as_millis() });
                s.len() - 1
            };
            let kind = script.get(idx).copied().unwrap_or(Kind::Full);
            let resource = res2.clone();
            Box::pin(async move {
                let status = |code: u16| -> reqwest::Result<reqwest::Response> {
                    let r = http::Response::builder().status(code).body(reqwest::Body::from(Vec::new())).unwrap();
                    Ok(reqwest::Response::from(r))
                };
                match kind {
                    Kind::S500 => status(500),
                    Kind::S503 => status(503),
                    Kind::S403 => status(403),
                    Kind::S404 => status(404),
                    Kind::S410 => status(410),
                    Kind::S400 => status(400),
                    Kind::S416 => status(416),
                    Kind::Full | Kind::Stall(_) => {
                        // a server without range support ignores the header
                        let from = if range_support {
                            range.as_deref().and_then(|r| r.strip_prefix("bytes=")).and_then(|r| r.strip_suffix('-')).and_then(|n| n.parse::<usize>().ok())
                        } else {
                            None
                        };
                        let (code, body) = match from {
                            Some(n) if n <= resource.len() => (206u16, resource[n..].to_vec()),
                            Some(_) => return status(416),
                            None => (200u16, resource.to_vec()),
                        };
                        let stall_after = match kind {
                            Kind::Stall(k) => Some(k.min(body.len().saturating_sub(1)).min(body.len())),
                            _ => None,
                        };
                        let send = match stall_after {
                            Some(k) => body[..k].to_vec(),
                            None => body,
                        };
                        let items: Vec<Result<Bytes, std::io::Error>> = send.chunks(chunk).map(|c| Ok(Bytes::copy_from_slice(c))).collect();
                        let stalls = stall_after.is_some();
                        let tail = futures::stream::once(async move {
                            if stalls {
                                tokio::time::sleep(Duration::from_millis(timeout_ms)).await;
                                Some(Err::<Bytes, std::io::Error>(std::io::Error::new(std::io::ErrorKind::TimedOut, "simulated stall: response body timed out")))
                            } else {
                                None
                            }
                        })
                        .filter_map(|x| async move { x });
                        let s = futures::stream::iter(items).chain(tail);
                        let mut b = http::Response::builder().status(code);
                        if range_support {
                            b = b.header("Accept-Ranges", "bytes");
                        } else if announce_none {
                            b = b.header("Accept-Ranges", "none");
                        }
                        let r = b.body(reqwest::Body::wrap_stream(s)).unwrap();
                        Ok(reqwest::Response::from(r))
                    }
                }
            })
        });

        let sc2 = sc.clone();
        let (got, end, virtual_ms) = block_on_paused(async move {
            tough::verif_hooks::set_http_responder(Some(responder));
            let t0 = tokio::time::Instant::now();
            *start.lock().unwrap() = Some(t0);
            let transport = HttpTransportBuilder::new()
                .tries(sc2.tries)
                .timeout(Duration::from_millis(sc2.timeout_ms))
                .connect_timeout(Duration::from_millis(sc2.timeout_ms))
                .initial_backoff(Duration::from_millis(sc2.initial_backoff_ms))
                .max_backoff(Duration::from_millis(sc2.max_backoff_ms))
                .backoff_factor(sc2.backoff_factor_x10 as f32 / 10.0)
                .build();
            let url = url::Url::parse("http://sim.invalid/resource.bin").unwrap();
            let mut got: Vec<u8> = Vec::new();
            let end: Result<(), (TransportErrorKind, String)>;
            match transport.fetch(url).await {
                Err(e) => end = Err((e.kind(), format!("{e}"))),
                Ok(mut s) => {
                    let mut e2 = Ok(());
                    let mut items = 0u64;
                    while let Some(item) = s.next().await {
                        items += 1;
                        match item {
                            Ok(b) => got.extend_from_slice(&b),
                            Err(e) => {
                                e2 = Err((e.kind(), format!("{e}")));
                                break;
                            }
                        }
                        if items > 5_000_000 {
                            e2 = Err((TransportErrorKind::Other, "runaway stream".into()));
                            break;
                        }
                    }
                    end = e2;
                }
            }
            tough::verif_hooks::set_http_responder(None);
            (got, end, t0.elapsed().as_millis())
        });
        let seen = seen.lock().unwrap().clone();
        let (expect, ref_requests) = reference(sc);
        o.sim_time_s = (virtual_ms / 1000) as u64;
        o.ev(format!("cfg tries={} size={} range={}/{} script={:?} chunk={} backoff=({},{},{}) timeout={}", sc.tries, sc.size, sc.range_support, sc.announce_none && !sc.range_support, sc.script, sc.chunk, sc.initial_backoff_ms, sc.max_backoff_ms, sc.backoff_factor_x10, sc.timeout_ms));
        o.ev(format!(
            "requests={:?} got={} end={:?} expect={expect:?}/{ref_requests} virtual_ms={virtual_ms}",
            seen.iter().map(|s| (s.range.clone(), s.at_ms)).collect::<Vec<_>>(),
            got.len(),
            end.as_ref().map_err(|e| format!("{:?}", e.0))
        ));

        // ---- safety
        if got.len() > resource.len() || got[..] != resource[..got.len()] {
            o.violate("yielded-bytes-not-a-prefix-of-resource", format!("{} bytes yielded, not a prefix of the {}-byte resource", got.len(), resource.len()));
        }
        if end.is_ok() && got.len() != resource.len() {
            o.violate("stream-ended-ok-but-incomplete", format!("stream ended without error after {} of {} bytes", got.len(), resource.len()));
        }
        if seen.len() > sc.tries as usize {
            o.violate("requests-exceed-tries", format!("{} requests for one fetch with tries={}", seen.len(), sc.tries));
        }
        // Range discipline
        let mut yielded_before: Vec<usize> = Vec::new();
        {
            // bytes yielded before request i = what the earlier responses delivered
            let mut y = 0usize;
            for i in 0..seen.len() {
                yielded_before.push(y);
                let k = sc.script.get(i).copied().unwrap_or(Kind::Full);
                let from = if sc.range_support { seen[i].range.as_deref().and_then(|r| r.strip_prefix("bytes=")).and_then(|r| r.strip_suffix('-')).and_then(|n| n.parse::<usize>().ok()) } else { None };
                let body_len = match from {
                    Some(n) if n <= sc.size => sc.size - n,
                    Some(_) => 0,
                    None => sc.size,
                };
                match k {
                    Kind::Full => y += body_len,
                    Kind::Stall(n) => y += n.min(body_len.saturating_sub(1)).min(body_len),
                    _ => {}
                }
            }
        }
        let mut announced = false;
        for (i, s) in seen.iter().enumerate() {
            if let Some(r) = &s.range {
                if !announced {
                    o.violate("range-request-without-announced-support", format!("request {i} carries Range: {r} although no response of this fetch announced Accept-Ranges"));
                }
                let want = format!("bytes={}-", yielded_before[i]);
                if *r != want {
                    o.violate("range-offset-wrong", format!("request {i} carries Range: {r}; {} bytes were yielded so far", yielded_before[i]));
                }
            } else if yielded_before[i] > 0 {
                o.violate("restart-from-zero-after-partial-body", format!("request {i} has no Range header although {} bytes were already yielded", yielded_before[i]));
            }
            let k = sc.script.get(i).copied().unwrap_or(Kind::Full);
            if sc.range_support && matches!(k, Kind::Full | Kind::Stall(_)) {
                announced = true;
            }
        }
        // error classification of the response that ended the fetch
        if let Some(last) = seen.len().checked_sub(1) {
            let k = sc.script.get(last).copied().unwrap_or(Kind::Full);
            match k {
                Kind::S403 | Kind::S404 | Kind::S410 => match &end {
                    Err((TransportErrorKind::FileNotFound, _)) => o.probe("file_not_found_reported"),
                    other => o.violate("not-found-status-not-reported-as-file-not-found", format!("{k:?} ended the fetch with {other:?}")),
                },
                Kind::S400 | Kind::S416 => match &end {
                    Err((TransportErrorKind::Other, _)) => o.probe("fatal_without_retry"),
                    other => o.violate("client-error-not-fatal", format!("{k:?} ended the fetch with {other:?}")),
                },
                _ => {}
            }
        }
        for (i, _) in seen.iter().enumerate() {
            let k = sc.script.get(i).copied().unwrap_or(Kind::Full);
            if matches!(k, Kind::S400 | Kind::S416 | Kind::S403 | Kind::S404 | Kind::S410) && i + 1 < seen.len() {
                o.violate("request-after-final-status", format!("request {} was sent after the {k:?} answer to request {i}", i + 1));
            }
        }
        // ---- liveness
        match (expect, &end) {
            (Expect::Complete, Ok(())) => {
                if ref_requests > 1 {
                    o.probe("completed_after_transient_failures");
                }
            }
            (Expect::Complete, Err(e)) => o.violate(
                "transient-failures-within-budget-not-survived",
                format!("a correct client completes this fetch with {ref_requests} of {} tries; tough ended with {e:?} after {} requests", sc.tries, seen.len()),
            ),
            (Expect::GaveUp, Err(_)) => o.probe("gave_up_within_budget"),
            _ => {}
        }
        // ---- fault accounting
        let mut fired = false;
        for (i, _) in seen.iter().enumerate() {
            match sc.script.get(i) {
                Some(Kind::S500 | Kind::S503) => {
                    o.fault("status_5xx");
                    fired = true;
                }
                Some(Kind::Stall(_)) => {
                    o.fault("stalled_body");
                    fired = true;
                }
                Some(Kind::S403 | Kind::S404 | Kind::S410) => {
                    o.fault("status_not_found_class");
                    fired = true;
                }
                Some(Kind::S400 | Kind::S416) => {
                    o.fault("status_client_error");
                    fired = true;
                }
                _ => {}
            }
        }
        if seen.iter().any(|s| s.range.is_some()) {
            o.fault("resume_with_range");
        }
        o.nontrivial = fired;
        o
    }
}
