//! C06 — target bytes delivered to the caller are exactly the signed content.

use crate::classify::{classify, variant};
use crate::engine::{block_on, Check, Outcome, Tier};
use crate::json;
use crate::prng::Rng;
use crate::transport::{Base, ErrKind, Resp, SimTransport, Step};
use crate::world::{self, RepoSpec, RoleNode};
use futures::StreamExt;
use serde::{Deserialize, Serialize};
use serde_json::{json, Value};
use tough::TargetName;

#[derive(Clone, Debug, Serialize, Deserialize, PartialEq)]
pub enum Corr {
    None,
    BitFlip(usize),
    Truncate(usize),
    Extend(usize),
    Substitute,
    /// after `after` genuine bytes the server keeps sending chunks of `chunk` bytes for ever
    Endless { after: usize, chunk: usize },
    /// the transport errors instead of delivering chunk `k`
    ErrorAt(usize),
}

#[derive(Clone, Debug, Serialize, Deserialize)]
pub struct Sc {
    pub world: u64,
    pub consistent: bool,
    pub delegated: bool,
    pub size: usize,
    pub content_seed: u64,
    /// chunk lengths applied to the served bytes (remainder goes into one last chunk)
    pub chunks: Vec<usize>,
    /// chunk indices before which the stream returns Pending once
    pub pendings: Vec<usize>,
    pub corr: Corr,
    pub ask_unknown: bool,
    /// spelling of the signed target name: 0 plain, 1 `x/../<name>`, 2 `./<name>`, 3 a `..` deeper
    /// inside; the file the client has to fetch is named after the resolved name in every case
    #[serde(default)]
    pub name_style: u8,
    /// the delegated role is delegated by hash prefix instead of a path pattern: the first n hex
    /// digits (1..4) of the SHA-256 of the resolved target name, so the entry is authorised
    #[serde(default)]
    pub hash_prefix_digits: u8,
}

pub struct C06;

fn content(seed: u64, size: usize) -> Vec<u8> {
    Rng::new(seed).bytes(size)
}

impl Check for C06 {
    type Scenario = Sc;
    fn id(&self) -> &'static str {
        "C06"
    }
    fn rule(&self) -> String {
        "seeded: target size (boundary set or random 0..64KiB), top-level or delegated (by path pattern or by a hash bin of 1..4 hex digits), signed under a plain name or one that needs resolution (x/../n, ./n, inner ..), consistent snapshot on/off, explicit chunking with Pending points, one corruption kind; non-trivial = a corruption or fault fired and the target stream was pulled to its end or to an error; distinct = distinct canonical trace".into()
    }
    fn assumptions(&self) -> Vec<String> {
        vec![
            "metadata is served clean; only the target stream is adversarial".into(),
            "SHA-256 of the harness (aws-lc digest called directly) is the ground truth".into(),
        ]
    }
    fn components(&self) -> Value {
        json!({"real": ["tough RepositoryLoader::load", "Repository::read_target", "fetch/io adapters", "schema + verification", "olpc-cjson", "aws-lc-rs"], "stub": ["transport (SimTransport)", "publisher (foreign, harness)"]})
    }
    fn runs(&self, tier: Tier) -> u64 {
        match tier {
            Tier::Quick => 30_000,
            Tier::Thorough => 2_000_000,
        }
    }
    fn required_faults(&self, _t: Tier) -> Vec<&'static str> {
        vec!["bit_flip", "truncate", "extend", "substitute", "endless", "error_at_chunk", "pending", "zero_len_chunk"]
    }
    fn required_probes(&self, _t: Tier) -> Vec<&'static str> {
        vec!["stream_ended_ok_digest_checked", "stream_error_seen", "not_found_answer"]
    }

    fn generate(&self, seed: u64, _tier: Tier) -> Sc {
        let mut r = Rng::new(seed);
        let size = if r.chance(1, 2) {
            *r.pick(&[0usize, 1, 2, 63, 64, 65, 4095, 4096, 4097, 8193, 16384, 65536])
        } else if r.chance(3, 4) {
            r.usize_below(3000)
        } else {
            r.usize_below(65537)
        };
        let corr = match r.below(10) {
            0 | 1 | 2 => Corr::None,
            3 => {
                if size == 0 {
                    Corr::Extend(1)
                } else {
                    Corr::BitFlip(r.usize_below(size * 8))
                }
            }
            4 => {
                if size == 0 {
                    Corr::Extend(1 + r.usize_below(5))
                } else {
                    Corr::Truncate(r.usize_below(size))
                }
            }
            5 => Corr::Extend(if r.chance(1, 2) { 1 } else { 1 + r.usize_below(5000) }),
            6 => Corr::Substitute,
            7 => Corr::Endless {
                after: if r.chance(1, 2) { size } else { r.usize_below(size + 1) },
                chunk: *r.pick(&[1usize, 7, 1024, 65536]),
            },
            _ => Corr::ErrorAt(0),
        };
        let served_len = match &corr {
            Corr::Truncate(p) => *p,
            Corr::Extend(n) => size + n,
            Corr::Substitute => size + 3,
            _ => size,
        };
        let chunks = r.chunking(served_len);
        let corr = match corr {
            Corr::ErrorAt(_) => Corr::ErrorAt(r.usize_below(chunks.len() + 1)),
            c => c,
        };
        let mut pendings = Vec::new();
        if r.chance(1, 3) {
            for _ in 0..=r.usize_below(3) {
                pendings.push(r.usize_below(chunks.len() + 1));
            }
            pendings.sort_unstable();
            pendings.dedup();
        }
        Sc {
            world: r.next_u64() % 1_000_003,
            consistent: r.chance(1, 2),
            delegated: r.chance(1, 2),
            size,
            content_seed: r.next_u64(),
            chunks,
            pendings,
            corr,
            ask_unknown: r.chance(1, 12),
            name_style: if r.chance(1, 3) { 1 + r.below(3) as u8 } else { 0 },
            hash_prefix_digits: if r.chance(1, 3) { 1 + r.below(4) as u8 } else { 0 },
        }
    }

    fn shrink(&self, sc: &Sc) -> Vec<Sc> {
        let mut v = Vec::new();
        if !sc.pendings.is_empty() {
            v.push(Sc { pendings: vec![], ..sc.clone() });
        }
        if sc.chunks.len() > 1 {
            v.push(Sc { chunks: vec![], ..sc.clone() });
        }
        if sc.delegated {
            v.push(Sc { delegated: false, ..sc.clone() });
        }
        if sc.consistent {
            v.push(Sc { consistent: false, ..sc.clone() });
        }
        if sc.name_style % 4 != 0 {
            v.push(Sc { name_style: 0, ..sc.clone() });
        }
        for s in [0usize, 1, 2, 8, 64, sc.size / 2] {
            if s < sc.size {
                let corr = match &sc.corr {
                    Corr::BitFlip(p) => {
                        if s == 0 {
                            continue;
                        }
                        Corr::BitFlip(p % (s * 8))
                    }
                    Corr::Truncate(p) => {
                        if s == 0 {
                            continue;
                        }
                        Corr::Truncate(p % s)
                    }
                    Corr::Endless { after, chunk } => Corr::Endless { after: (*after).min(s), chunk: *chunk },
                    c => c.clone(),
                };
                v.push(Sc { size: s, chunks: vec![], pendings: vec![], corr, ..sc.clone() });
            }
        }
        if let Corr::Extend(n) = sc.corr {
            if n > 1 {
                v.push(Sc { corr: Corr::Extend(1), ..sc.clone() });
            }
        }
        v
    }

    fn sample(&self, sc: &Sc) -> Value {
        json!({"consistent": sc.consistent, "delegated": sc.delegated, "size": sc.size, "n_chunks": sc.chunks.len(),
               "first_chunks": sc.chunks.iter().take(8).collect::<Vec<_>>(), "pendings": sc.pendings, "corruption": sc.corr, "ask_unknown": sc.ask_unknown})
    }

    fn run(&self, sc: &Sc) -> Outcome {
        let mut o = Outcome::new();
        let resolved = if sc.delegated { "d/file.bin" } else { "file.bin" };
        let name: &str = match (sc.name_style % 4, sc.delegated) {
            (0, _) => resolved,
            (1, false) => "x/../file.bin",
            (1, true) => "x/../d/file.bin",
            (2, false) => "./file.bin",
            (2, true) => "./d/file.bin",
            (_, false) => "a/b/../../file.bin",
            (_, true) => "d/sub/../file.bin",
        };
        let body = content(sc.content_seed, sc.size);
        let mut other = content(sc.content_seed ^ 0x55, sc.size + 3);
        if other.is_empty() {
            other.push(1);
        }
        let mut spec = RepoSpec::basic(sc.world, sc.consistent);
        spec.add_target("other.bin", &other);
        if sc.delegated {
            let mut role = RoleNode::simple(sc.world, 10, "d1", &["d/*"]);
            if sc.hash_prefix_digits > 0 {
                let digest = crate::json::sha256_hex(resolved.as_bytes());
                role.paths = crate::publisher::Paths::HashPrefixes(vec![digest[..(sc.hash_prefix_digits as usize).min(4)].to_string()]);
            }
            role.targets.push(crate::publisher::TargetEntry::of(name, &body));
            spec.delegated.push(role);
        } else {
            spec.add_target(name, &body);
        }
        let built = world::build(&spec);
        let expect_rel = world::target_file_name(sc.consistent, resolved, &body);

        // what the adversary serves for the target
        let mut served: Vec<u8> = body.clone();
        let mut tail: Vec<Step> = Vec::new();
        let mut changed = false;
        match &sc.corr {
            Corr::None => {}
            Corr::BitFlip(p) => {
                if !served.is_empty() {
                    let p = p % (served.len() * 8);
                    served[p / 8] ^= 1 << (p % 8);
                    changed = true;
                }
            }
            Corr::Truncate(p) => {
                if *p < served.len() {
                    served.truncate(*p);
                    changed = true;
                }
            }
            Corr::Extend(n) => {
                served.extend(std::iter::repeat(b'X').take((*n).max(1)));
                changed = true;
            }
            Corr::Substitute => {
                served = other.clone();
                changed = true;
            }
            Corr::Endless { after, chunk } => {
                served.truncate((*after).min(body.len()));
                tail.push(Step::Endless(*chunk));
                changed = true;
            }
            Corr::ErrorAt(_) => {}
        }
        let mut steps: Vec<Step> = Vec::new();
        {
            let mut at = 0usize;
            let mut lens: Vec<usize> = Vec::new();
            for l in &sc.chunks {
                if at >= served.len() && *l > 0 {
                    break;
                }
                let e = (at + l).min(served.len());
                lens.push(e - at);
                at = e;
            }
            if at < served.len() {
                lens.push(served.len() - at);
            }
            let mut at = 0usize;
            for (i, l) in lens.iter().enumerate() {
                if sc.pendings.contains(&i) {
                    steps.push(Step::Pending);
                }
                if let Corr::ErrorAt(k) = sc.corr {
                    if k == i {
                        steps.push(Step::Error(ErrKind::Other));
                        break;
                    }
                }
                steps.push(Step::Data(served[at..at + l].to_vec()));
                at += l;
            }
            if let Corr::ErrorAt(k) = sc.corr {
                if k >= lens.len() {
                    steps.push(Step::Error(ErrKind::Other));
                }
            }
            if sc.pendings.iter().any(|p| *p >= lens.len()) {
                steps.push(Step::Pending);
            }
            steps.extend(tail);
        }
        let zero_chunks = steps.iter().filter(|s| matches!(s, Step::Data(d) if d.is_empty())).count();
        let n_pending = steps.iter().filter(|s| matches!(s, Step::Pending)).count();

        let meta = built.files.meta.clone();
        let tfiles = built.files.targets.clone();
        let target_steps = steps.clone();
        let expect_rel_c = expect_rel.clone();
        let transport = SimTransport::new(move |r| match r.base {
            Base::Metadata => meta.get(&r.rel).map_or(Resp::not_found(), |b| Resp::whole(b)),
            Base::Targets => {
                if r.rel == expect_rel_c {
                    Resp::Body(target_steps.clone())
                } else {
                    tfiles.get(&r.rel).map_or(Resp::not_found(), |b| Resp::whole(b))
                }
            }
            Base::Unknown => Resp::not_found(),
        });

        let root_bytes = built.root.bytes();
        let ask = if sc.ask_unknown { if sc.delegated { "d/nope.bin" } else { "nope.bin" } } else { name };
        o.ev(format!(
            "cfg consistent={} delegated={} hash_digits={} name_style={} size={} corr={:?} chunks={} ask={}",
            sc.consistent,
            sc.delegated,
            if sc.delegated { sc.hash_prefix_digits } else { 0 },
            sc.name_style % 4,
            sc.size,
            sc.corr,
            sc.chunks.len(),
            ask
        ));
        let t2 = transport.clone();
        let res = block_on(async move {
            let repo = match world::load(&root_bytes, t2, None, world::LoadOpts::default()).await {
                Ok(r) => r,
                Err(e) => return Err(format!("load failed: {}", variant(&e))),
            };
            let tn = TargetName::new(ask).map_err(|e| format!("target name: {e}"))?;
            let mut got: Vec<u8> = Vec::new();
            let mut items = 0usize;
            let status: (String, Option<crate::classify::Class>);
            match repo.read_target(&tn).await {
                Err(e) => status = ("read_target_err".into(), Some(classify(&e))),
                Ok(None) => status = ("none".into(), None),
                Ok(Some(mut stream)) => {
                    let mut st = ("ended_ok".to_string(), None);
                    while let Some(item) = stream.next().await {
                        items += 1;
                        match item {
                            Ok(b) => got.extend_from_slice(&b),
                            Err(e) => {
                                st = ("stream_err".into(), Some(classify(&e)));
                                break;
                            }
                        }
                        if got.len() > (1 << 27) || items > 10_000_000 {
                            st = ("runaway".into(), None);
                            break;
                        }
                    }
                    status = st;
                }
            }
            Ok((status, got))
        });
        let ((status, class), got) = match res {
            Ok(x) => x,
            Err(m) if sc.delegated && sc.hash_prefix_digits > 0 && m.contains("InvalidPath") => {
                o.violate(
                    "authorised-entry-refused-at-load",
                    format!("a delegated role holding the hash bin of its target (first {} digits of the name digest) was refused: {m}", sc.hash_prefix_digits),
                );
                return o;
            }
            Err(m) => {
                o.harness(format!("clean metadata did not load: {m}"));
                return o;
            }
        };
        let log = transport.log();
        let treq: Vec<_> = log.iter().filter(|l| !l.is_meta).cloned().collect();
        o.ev(format!("status={status} class={:?} got={} target_requests={}", class.map(|c| c.name()), got.len(), treq.len()));
        for t in &treq {
            o.ev(format!("treq rel_len={} pulled={} ended={} errored={}", t.rel.len(), t.bytes_pulled, t.ended, t.errored));
        }

        // ---- oracle
        if sc.ask_unknown {
            if status == "none" {
                o.probe("not_found_answer");
                if !treq.is_empty() {
                    o.violate("unknown-name-fetched", format!("unknown target name caused requests: {:?}", treq.iter().map(|t| &t.rel).collect::<Vec<_>>()));
                }
            } else {
                o.violate("unknown-name-yields-data", format!("asking for a name with no entry gave status {status}"));
            }
            return o;
        }
        let signed_len = body.len();
        let digest = json::sha256(&body);
        if status == "none" {
            o.violate("listed-target-not-found", "a listed, authorised target was reported as not found");
            return o;
        }
        if treq.len() == 1 && treq[0].rel != expect_rel {
            o.violate("wrong-file-requested", format!("requested {:?}, expected {:?}", treq[0].rel, expect_rel));
        }
        if treq.len() > 1 {
            o.violate("multiple-target-requests", format!("{} requests for one read_target", treq.len()));
        }
        if got.len() > signed_len {
            o.violate("more-than-signed-length-delivered", format!("{} bytes handed to the caller, signed length {}", got.len(), signed_len));
        }
        if status == "runaway" || transport.runaway() {
            o.violate("endless-stream-not-cut", "the client kept pulling an endless stream");
        }
        match status.as_str() {
            "ended_ok" => {
                o.probe("stream_ended_ok_digest_checked");
                if json::sha256(&got) != digest {
                    o.violate(
                        format!("unverified-content-accepted:{}", corr_name(&sc.corr)),
                        format!("stream ended without error but content digest differs (got {} bytes, signed {})", got.len(), signed_len),
                    );
                }
            }
            "stream_err" | "read_target_err" => {
                o.probe("stream_error_seen");
                let legit = matches!(sc.corr, Corr::None) && !changed;
                if legit {
                    o.violate("genuine-content-rejected", format!("uncorrupted delivery failed with class {:?}", class.map(|c| c.name())));
                }
            }
            _ => {}
        }
        if matches!(sc.corr, Corr::None) && status == "ended_ok" && got != body {
            o.violate("genuine-content-altered", "uncorrupted delivery produced different bytes");
        }
        if let Corr::Endless { chunk, .. } = sc.corr {
            if let Some(t) = treq.first() {
                if t.bytes_pulled > signed_len + chunk {
                    o.violate("endless-stream-overpulled", format!("pulled {} bytes for a target of signed length {} (chunk {})", t.bytes_pulled, signed_len, chunk));
                }
            }
        }

        // ---- fault accounting (fired = consumed by the client)
        let pulled_any = treq.first().is_some_and(|t| t.steps_pulled > 0);
        if changed && pulled_any {
            o.fault(match sc.corr {
                Corr::BitFlip(_) => "bit_flip",
                Corr::Truncate(_) => "truncate",
                Corr::Extend(_) => "extend",
                Corr::Substitute => "substitute",
                Corr::Endless { .. } => "endless",
                _ => "none",
            });
        }
        if treq.first().is_some_and(|t| t.errored) {
            o.fault("error_at_chunk");
        }
        if let Some(t) = treq.first() {
            o.fault_n("pending", t.pendings.min(n_pending) as u64);
            if zero_chunks > 0 && t.steps_pulled > 0 {
                o.fault_n("zero_len_chunk", zero_chunks as u64);
            }
            if sc.chunks.iter().filter(|c| **c == 1).count() > 4 {
                o.fault("one_byte_chunks");
            }
        }
        o.nontrivial = (changed || matches!(sc.corr, Corr::ErrorAt(_)) || n_pending > 0 || zero_chunks > 0) && pulled_any;
        o
    }
}

fn corr_name(c: &Corr) -> &'static str {
    match c {
        Corr::None => "none",
        Corr::BitFlip(_) => "bit-flip",
        Corr::Truncate(_) => "truncate",
        Corr::Extend(_) => "extend",
        Corr::Substitute => "substitute",
        Corr::Endless { .. } => "endless",
        Corr::ErrorAt(_) => "error-at",
    }
}
