//! C02 — root rotation follows an unbroken, doubly-signed, forward-only chain.

use crate::classify::{classify, variant, Class};
use crate::engine::{block_on, Check, Outcome, Scratch, Tier};
use crate::json::{self, J};
use crate::keys::{self, Alg, K};
use crate::prng::Rng;
use crate::publisher::*;
use crate::transport::{Base, ErrKind, Resp, SimTransport, Step};
use crate::world::{self, sign_threshold};
use serde::{Deserialize, Serialize};
use serde_json::{json, Value};
use std::collections::BTreeSet;

#[derive(Clone, Debug, Serialize, Deserialize)]
pub struct Epoch {
    /// (algorithm, key number) of each root key of this epoch
    pub root_keys: Vec<(Alg, u64)>,
    pub root_thr: u64,
    /// generation of the online (timestamp/snapshot/targets) keys; equal numbers = same keys
    pub online_gen: u64,
}

#[derive(Clone, Copy, Debug, Serialize, Deserialize, PartialEq, Eq)]
pub enum Broken {
    OnlyOldKeys,
    OnlyNewKeys,
    BelowOldThreshold,
    BelowNewThreshold,
    VersionLower,
    VersionEqual,
    VersionSkip,
    Unparsable,
    WrongFile,
    Missing,
}

pub const BROKEN: [Broken; 10] = [
    Broken::OnlyOldKeys,
    Broken::OnlyNewKeys,
    Broken::BelowOldThreshold,
    Broken::BelowNewThreshold,
    Broken::VersionLower,
    Broken::VersionEqual,
    Broken::VersionSkip,
    Broken::Unparsable,
    Broken::WrongFile,
    Broken::Missing,
];

#[derive(Clone, Copy, Debug, Serialize, Deserialize, PartialEq, Eq)]
pub enum Avail {
    FetchNotFound,
    FetchOther,
    StreamNotFound,
    StreamOther,
}

#[derive(Clone, Debug, Serialize, Deserialize)]
pub struct Sc {
    pub world: u64,
    pub consistent: bool,
    /// epochs[i] describes root version i+1
    pub epochs: Vec<Epoch>,
    /// index into epochs of the root the client ships
    pub shipped: usize,
    /// the shipped root carries too few self-signatures
    pub shipped_unsigned: bool,
    /// (index of the epoch whose root document is broken (>=1), how)
    pub broken: Option<(usize, Broken)>,
    /// top-level metadata is signed with the online keys of this epoch
    pub meta_epoch: usize,
    /// availability fault on the request for root version `v`
    pub avail: Option<(u64, Avail)>,
    /// an earlier clean cycle of the same client on the same datastore, at a time when the chain
    /// ended this many good hops beyond the shipped root (clamped to what the reference walk
    /// reaches); metadata then was signed with the online keys of the root trusted then
    #[serde(default)]
    pub prior: Option<u64>,
    /// clutter in the signature lists of all root documents, which changes nothing about who
    /// validly signed: 0 = none; 1 = before each valid entry a corrupted entry under the same key
    /// id; 2 = before each valid entry one by the same key over other content (a stale signature);
    /// 3 = the same clutter after the valid entries
    #[serde(default)]
    pub junk: u8,
}

pub struct C02;

fn rkey(world: u64, k: &(Alg, u64)) -> K {
    match k.0 {
        Alg::Ed25519 => keys::ed(world, 300 + k.1),
        a => keys::key(world, a, k.1),
    }
}

fn root_set(world: u64, e: &Epoch) -> RoleKeys {
    RoleKeys { keys: e.root_keys.iter().map(|k| rkey(world, k)).collect(), threshold: e.root_thr }
}

fn online(world: u64, gen: u64, role: u64) -> K {
    keys::ed(world, 1000 + gen * 3 + role)
}

fn root_spec(sc: &Sc, i: usize, version: u64) -> RootSpec {
    let e = &sc.epochs[i];
    RootSpec {
        version,
        expires: FAR,
        consistent_snapshot: sc.consistent,
        root: root_set(sc.world, e),
        timestamp: RoleKeys::one(&online(sc.world, e.online_gen, 0)),
        snapshot: RoleKeys::one(&online(sc.world, e.online_gen, 1)),
        targets: RoleKeys::one(&online(sc.world, e.online_gen, 2)),
    }
}

/// What is served at `<v>.root.json` and what the harness knows about it.
struct Served {
    bytes: Vec<u8>,
    /// None = not a parsable root document
    info: Option<HopInfo>,
}

struct HopInfo {
    version: u64,
    /// ids of keys that validly signed this document
    signers: BTreeSet<String>,
    own_root: RoleKeys,
    epoch: usize,
}

fn count_in(signers: &BTreeSet<String>, rk: &RoleKeys) -> u64 {
    rk.keys.iter().map(|k| &k.id).collect::<BTreeSet<_>>().iter().filter(|id| signers.contains(**id)).count() as u64
}

fn distinct(ks: Vec<K>) -> Vec<K> {
    let mut seen = BTreeSet::new();
    ks.into_iter().filter(|k| seen.insert(k.id.clone())).collect()
}

fn build_chain(sc: &Sc) -> Vec<Option<Served>> {
    // index v-1 → served document for version v
    let mut out: Vec<Option<Served>> = Vec::new();
    for i in 0..sc.epochs.len() {
        let v = (i + 1) as u64;
        let own = root_set(sc.world, &sc.epochs[i]);
        let prev = if i > 0 { Some(root_set(sc.world, &sc.epochs[i - 1])) } else { None };
        let broken = sc.broken.filter(|(bi, _)| *bi == i && i > 0).map(|(_, b)| b);
        let mut doc_version = v;
        match broken {
            Some(Broken::VersionLower) => doc_version = v.saturating_sub(2).max(1).min(v - 1),
            Some(Broken::VersionEqual) => doc_version = v - 1,
            Some(Broken::VersionSkip) => doc_version = v + 1,
            _ => {}
        }
        if broken == Some(Broken::Missing) {
            out.push(None);
            continue;
        }
        if broken == Some(Broken::Unparsable) {
            out.push(Some(Served { bytes: b"{\"signed\": {\"_type\": \"root\", ".to_vec(), info: None }));
            continue;
        }
        if broken == Some(Broken::WrongFile) {
            // a genuine, validly signed timestamp document under the root's file name
            let e = &sc.epochs[i];
            let d = sign_threshold(
                timestamp_signed(1, FAR, &Meta { version: 1, length: None, sha256: None }),
                &RoleKeys::one(&online(sc.world, e.online_gen, 0)),
            );
            out.push(Some(Served { bytes: d.bytes(), info: None }));
            continue;
        }
        let spec = root_spec(sc, i, doc_version);
        let signed = spec.signed();
        let new_n = own.threshold.min(own.keys.len() as u64) as usize;
        let mut signers: Vec<K> = Vec::new();
        let old_part = |n: usize| -> Vec<K> { prev.as_ref().map(|p| p.keys.iter().take(n).cloned().collect()).unwrap_or_default() };
        let old_n = prev.as_ref().map(|p| p.threshold.min(p.keys.len() as u64) as usize).unwrap_or(0);
        match broken {
            Some(Broken::OnlyOldKeys) => {
                // old keys that are not also new keys
                let newids: BTreeSet<_> = own.keys.iter().map(|k| k.id.clone()).collect();
                signers.extend(prev.as_ref().map(|p| p.keys.iter().filter(|k| !newids.contains(&k.id)).cloned().collect::<Vec<_>>()).unwrap_or_default());
            }
            Some(Broken::OnlyNewKeys) => {
                let oldids: BTreeSet<_> = prev.as_ref().map(|p| p.keys.iter().map(|k| k.id.clone()).collect()).unwrap_or_default();
                signers.extend(own.keys.iter().filter(|k| !oldids.contains(&k.id)).cloned());
            }
            Some(Broken::BelowOldThreshold) => {
                signers.extend(old_part(old_n.saturating_sub(1)));
                let oldids: BTreeSet<_> = prev.as_ref().map(|p| p.keys.iter().map(|k| k.id.clone()).collect()).unwrap_or_default();
                signers.extend(own.keys.iter().filter(|k| !oldids.contains(&k.id)).cloned());
            }
            Some(Broken::BelowNewThreshold) => {
                let newids: BTreeSet<_> = own.keys.iter().map(|k| k.id.clone()).collect();
                signers.extend(prev.as_ref().map(|p| p.keys.iter().filter(|k| !newids.contains(&k.id)).cloned().collect::<Vec<_>>()).unwrap_or_default());
                signers.extend(own.keys.iter().take(new_n.saturating_sub(1)).cloned());
            }
            _ => {
                signers.extend(old_part(old_n));
                signers.extend(own.keys.iter().take(new_n).cloned());
            }
        }
        if i == sc.shipped && sc.shipped_unsigned {
            // keep only signatures that do not help the document verify under its own keys
            let ownids: BTreeSet<_> = own.keys.iter().map(|k| k.id.clone()).collect();
            let keep = own.threshold.saturating_sub(1) as usize;
            let mut kept_own = 0;
            signers.retain(|k| {
                if ownids.contains(&k.id) {
                    kept_own += 1;
                    kept_own <= keep
                } else {
                    true
                }
            });
        }
        let signers = distinct(signers);
        let mut doc = Doc::signed_by(signed, &signers);
        if sc.junk != 0 {
            let mut other = doc.signed.clone();
            other.set("spec_version", crate::json::s("1.0.1"));
            let mut cluttered = Vec::new();
            let mut tail = Vec::new();
            for (e, k) in doc.sigs.iter().zip(signers.iter()) {
                let junk = match sc.junk {
                    2 => sign_with(&other, k),
                    _ => {
                        let mut j = e.clone();
                        let mut raw = hex::decode(&j.sig).unwrap_or_default();
                        if let Some(b) = raw.last_mut() {
                            *b ^= 0x01;
                        }
                        j.sig = hex::encode(raw);
                        j
                    }
                };
                if sc.junk == 3 {
                    cluttered.push(e.clone());
                    tail.push(junk);
                } else {
                    cluttered.push(junk);
                    cluttered.push(e.clone());
                }
            }
            cluttered.extend(tail);
            doc.sigs = cluttered;
        }
        out.push(Some(Served {
            bytes: doc.bytes(),
            info: Some(HopInfo {
                version: doc_version,
                signers: signers.iter().map(|k| k.id.clone()).collect(),
                own_root: own,
                epoch: i,
            }),
        }));
    }
    out
}

struct Reference {
    /// the shipped root verifies under its own keys
    shipped_ok: bool,
    /// epoch index of the last root reachable by acceptable hops
    final_epoch: usize,
    final_version: u64,
    /// versions a correct client may request, in order
    requests: Vec<u64>,
    /// a document that must not be adopted was on the way (served and parsable or not)
    stopped_by_bad_hop: bool,
    /// the roots trusted along the way: (version, epoch, number of the file it was fetched as;
    /// 0 for the shipped root)
    trail: Vec<(u64, usize, u64)>,
}

fn unavailable(sc: &Sc, v: u64) -> Option<Avail> {
    sc.avail.filter(|(av, _)| *av == v).map(|(_, a)| a)
}

fn reference_walk(sc: &Sc, chain: &[Option<Served>]) -> Reference {
    let ship = chain[sc.shipped].as_ref().and_then(|s| s.info.as_ref()).expect("shipped root is a root document");
    let shipped_ok = count_in(&ship.signers, &ship.own_root) >= ship.own_root.threshold;
    let mut cur_epoch = sc.shipped;
    let mut cur_version = ship.version;
    let mut cur_root = ship.own_root.clone();
    let mut requests = Vec::new();
    let mut stopped_by_bad_hop = false;
    let mut trail = vec![(cur_version, cur_epoch, 0u64)];
    loop {
        let v = cur_version + 1;
        requests.push(v);
        if unavailable(sc, v).is_some() {
            break;
        }
        let Some(Some(s)) = chain.get((v - 1) as usize) else { break };
        let Some(info) = &s.info else {
            stopped_by_bad_hop = true;
            break;
        };
        let ok_old = count_in(&info.signers, &cur_root) >= cur_root.threshold;
        let ok_new = count_in(&info.signers, &info.own_root) >= info.own_root.threshold;
        if ok_old && ok_new && info.version > cur_version {
            cur_epoch = info.epoch;
            cur_version = info.version;
            cur_root = info.own_root.clone();
            trail.push((cur_version, cur_epoch, v));
            if requests.len() > 64 {
                break;
            }
        } else {
            stopped_by_bad_hop = true;
            break;
        }
    }
    Reference { shipped_ok, final_epoch: cur_epoch, final_version: cur_version, requests, stopped_by_bad_hop, trail }
}

fn gen_epochs(r: &mut Rng, n: usize) -> Vec<Epoch> {
    let mut out: Vec<Epoch> = Vec::new();
    let mut next_key = 0u64;
    let mut fresh = |r: &mut Rng, alg_change: bool| -> (Alg, u64) {
        next_key += 1;
        let alg = if alg_change { *r.pick(&[Alg::Ecdsa, Alg::Rsa]) } else { Alg::Ed25519 };
        (alg, if alg == Alg::Ed25519 { next_key } else { next_key % 6 })
    };
    for i in 0..n {
        if i == 0 {
            let nk = 1 + r.usize_below(3);
            let keys: Vec<_> = (0..nk).map(|_| fresh(r, false)).collect();
            let thr = 1 + r.below(nk as u64);
            out.push(Epoch { root_keys: keys, root_thr: thr, online_gen: 0 });
            continue;
        }
        let prev = out[i - 1].clone();
        let mut e = prev.clone();
        match r.below(7) {
            0 => {}
            1 => {
                let nk = 1 + r.usize_below(3);
                e.root_keys = (0..nk).map(|_| fresh(r, false)).collect();
                e.root_thr = 1 + r.below(nk as u64);
            }
            2 => {
                // overlapping: drop one (if possible), add one
                if e.root_keys.len() > 1 {
                    let at = r.usize_below(e.root_keys.len());
                    e.root_keys.remove(at);
                }
                if e.root_keys.len() < 3 {
                    e.root_keys.push(fresh(r, false));
                }
                e.root_thr = e.root_thr.min(e.root_keys.len() as u64).max(1);
            }
            3 => e.root_thr = (e.root_thr + 1).min(e.root_keys.len() as u64),
            4 => e.root_thr = e.root_thr.saturating_sub(1).max(1),
            5 => {
                let nk = 1 + r.usize_below(2);
                let mut ks: Vec<(Alg, u64)> = Vec::new();
                for _ in 0..nk {
                    let mut k = fresh(r, true);
                    while ks.contains(&k) {
                        k.1 = (k.1 + 1) % 6;
                    }
                    ks.push(k);
                }
                e.root_keys = ks;
                e.root_thr = 1 + r.below(nk as u64);
            }
            _ => {
                if e.root_keys.len() < 3 {
                    e.root_keys.push(fresh(r, false));
                }
            }
        }
        if r.chance(1, 3) {
            e.online_gen = prev.online_gen + 1;
        }
        out.push(e);
    }
    out
}

impl Check for C02 {
    type Scenario = Sc;
    fn id(&self) -> &'static str {
        "C02"
    }
    fn rule(&self) -> String {
        "root chain of 1..5 versions with a rotation kind per hop (same, disjoint, overlapping, threshold up/down, algorithm change, key added), shipped root anywhere on the chain (optionally not self-verifying), at most one broken hop (10 kinds), top-level metadata signed with the online keys of any epoch, optional availability fault (fetch/stream x not-found/other) on one root request, in a quarter of the runs non-verifying clutter (corrupted or stale entries under the signers' key ids) before or after the valid entries of every root's signature list, and in a third of the runs a datastore left by an earlier clean cycle that ended 0..3 good hops beyond the shipped root; the root trusted at the end is compared by content, not only by version; non-trivial = a broken hop, revoked-key metadata, unsigned shipped root or availability fault was actually reached by the client; distinct = distinct canonical trace".into()
    }
    fn assumptions(&self) -> Vec<String> {
        vec!["ground truth = harness bookkeeping of who signed each root document".into(), "no expiry in this check (C04)".into()]
    }
    fn components(&self) -> Value {
        json!({"real": ["tough load_root walk and all later verification", "schema", "olpc-cjson", "aws-lc-rs"], "stub": ["transport (SimTransport)", "foreign publisher"]})
    }
    fn runs(&self, tier: Tier) -> u64 {
        match tier {
            Tier::Quick => 20_000,
            Tier::Thorough => 1_000_000,
        }
    }
    fn required_faults(&self, _t: Tier) -> Vec<&'static str> {
        vec![
            "broken:OnlyOldKeys", "broken:OnlyNewKeys", "broken:BelowOldThreshold", "broken:BelowNewThreshold", "broken:VersionLower",
            "broken:VersionEqual", "broken:VersionSkip", "broken:Unparsable", "broken:WrongFile", "broken:Missing",
            "metadata_signed_by_revoked_keys", "shipped_root_not_self_verifying", "avail:FetchNotFound", "avail:FetchOther", "avail:StreamNotFound", "avail:StreamOther",
        ]
    }
    fn required_probes(&self, _t: Tier) -> Vec<&'static str> {
        vec!["walked_full_good_chain", "stopped_before_bad_hop", "rotation_with_disjoint_keys_followed", "warm_datastore_from_earlier_cycle"]
    }
    fn generate(&self, seed: u64, _tier: Tier) -> Sc {
        let mut r = Rng::new(seed);
        let n = 1 + r.usize_below(5);
        let epochs = gen_epochs(&mut r, n);
        let shipped = r.usize_below(n);
        let broken = if n > shipped + 1 && r.chance(1, 2) {
            Some((shipped + 1 + r.usize_below(n - shipped - 1), *r.pick(&BROKEN)))
        } else if n > 1 && r.chance(1, 10) {
            Some((1 + r.usize_below(n - 1), *r.pick(&BROKEN)))
        } else {
            None
        };
        let meta_epoch = if r.chance(2, 3) { n - 1 } else { r.usize_below(n) };
        let avail = if r.chance(1, 4) {
            Some((shipped as u64 + 2 + r.below((n - shipped) as u64), *r.pick(&[Avail::FetchNotFound, Avail::FetchOther, Avail::StreamNotFound, Avail::StreamOther])))
        } else {
            None
        };
        Sc {
            world: r.below(1_000_003),
            consistent: r.chance(1, 2),
            epochs,
            shipped,
            shipped_unsigned: r.chance(1, 12),
            broken,
            meta_epoch,
            avail,
            prior: if r.chance(1, 3) { Some(r.below(4)) } else { None },
            junk: if r.chance(1, 4) { 1 + r.below(3) as u8 } else { 0 },
        }
    }
    fn shrink(&self, sc: &Sc) -> Vec<Sc> {
        let mut v = Vec::new();
        if sc.avail.is_some() {
            v.push(Sc { avail: None, ..sc.clone() });
        }
        if sc.prior.is_some() {
            v.push(Sc { prior: None, ..sc.clone() });
        }
        if sc.junk != 0 {
            v.push(Sc { junk: 0, ..sc.clone() });
        }
        if sc.consistent {
            v.push(Sc { consistent: false, ..sc.clone() });
        }
        // drop the last epoch
        if sc.epochs.len() > 1 && sc.shipped < sc.epochs.len() - 1 && sc.meta_epoch < sc.epochs.len() - 1 && sc.broken.map_or(true, |(b, _)| b < sc.epochs.len() - 1) {
            let mut e = sc.epochs.clone();
            e.pop();
            v.push(Sc { epochs: e, ..sc.clone() });
        }
        // drop the first epoch
        if sc.epochs.len() > 1 && sc.shipped >= 1 && sc.meta_epoch >= 1 && sc.broken.map_or(true, |(b, _)| b >= 2) {
            let mut e = sc.epochs.clone();
            e.remove(0);
            v.push(Sc {
                epochs: e,
                shipped: sc.shipped - 1,
                meta_epoch: sc.meta_epoch - 1,
                broken: sc.broken.map(|(b, k)| (b - 1, k)),
                avail: sc.avail.map(|(a, k)| (a - 1, k)),
                ..sc.clone()
            });
        }
        if sc.broken.is_some() {
            v.push(Sc { broken: None, ..sc.clone() });
        }
        for i in 0..sc.epochs.len() {
            if sc.epochs[i].root_keys.iter().any(|k| k.0 != Alg::Ed25519) {
                let mut e = sc.epochs.clone();
                for (j, k) in e[i].root_keys.iter_mut().enumerate() {
                    *k = (Alg::Ed25519, 900 + (i * 4 + j) as u64);
                }
                v.push(Sc { epochs: e, ..sc.clone() });
            }
        }
        v
    }
    fn run(&self, sc: &Sc) -> Outcome {
        let mut o = Outcome::new();
        let n = sc.epochs.len();
        if n == 0 || sc.shipped >= n || sc.meta_epoch >= n {
            o.harness("degenerate scenario");
            return o;
        }
        let chain = build_chain(sc);
        if sc.broken.is_some_and(|(bi, _)| bi == sc.shipped) || chain[sc.shipped].as_ref().and_then(|s| s.info.as_ref()).is_none() {
            o.inconclusive("shipped root is the broken document");
            return o;
        }
        let reference = reference_walk(sc, &chain);
        // top-level metadata signed with the online keys of meta_epoch
        let me = &sc.epochs[sc.meta_epoch];
        let mut spec = world::RepoSpec::basic(sc.world, sc.consistent);
        spec.root = root_spec(sc, sc.meta_epoch, (sc.meta_epoch + 1) as u64);
        let _ = me;
        let built = world::build(&spec);
        let mut meta_files = built.files.meta.clone();
        meta_files.retain(|k, _| !k.ends_with(".root.json"));
        let fe = &sc.epochs[reference.final_epoch];
        let meta_ok_under_final = fe.online_gen == sc.epochs[sc.meta_epoch].online_gen;

        let roots: Vec<Option<Vec<u8>>> = chain.iter().map(|s| s.as_ref().map(|s| s.bytes.clone())).collect();
        let avail = sc.avail;
        let roots_all = roots.clone();
        let transport = SimTransport::new(move |r| {
            if r.base != Base::Metadata {
                return Resp::not_found();
            }
            if let Some(vs) = r.rel.strip_suffix(".root.json") {
                if let Ok(v) = vs.parse::<u64>() {
                    if let Some((av, kind)) = avail {
                        if av == v {
                            return match kind {
                                Avail::FetchNotFound => Resp::FetchErr(ErrKind::NotFound),
                                Avail::FetchOther => Resp::FetchErr(ErrKind::Other),
                                Avail::StreamNotFound => Resp::Body(vec![Step::Error(ErrKind::NotFound)]),
                                Avail::StreamOther => Resp::Body(vec![Step::Data(b"{".to_vec()), Step::Error(ErrKind::Other)]),
                            };
                        }
                    }
                    return match roots.get((v as usize).wrapping_sub(1)) {
                        Some(Some(b)) => Resp::whole(b),
                        _ => Resp::not_found(),
                    };
                }
            }
            meta_files.get(&r.rel).map_or(Resp::not_found(), |b| Resp::whole(b))
        });
        let shipped_bytes = chain[sc.shipped].as_ref().unwrap().bytes.clone();
        o.ev(format!(
            "cfg n={} shipped={} unsigned={} broken={:?} meta_epoch={} avail={:?} consistent={} junk={} epochs={:?}",
            n, sc.shipped, sc.shipped_unsigned, sc.broken, sc.meta_epoch, sc.avail, sc.consistent, sc.junk,
            sc.epochs.iter().map(|e| (e.root_keys.len(), e.root_thr, e.online_gen)).collect::<Vec<_>>()
        ));
        o.ev(format!(
            "ref shipped_ok={} final_v={} requests={:?} bad_hop={} meta_ok={}",
            reference.shipped_ok, reference.final_version, reference.requests, reference.stopped_by_bad_hop, meta_ok_under_final
        ));
        // ---- an earlier clean cycle on the same datastore (only for a self-verifying shipped root)
        let scratch = Scratch::new();
        let ds = scratch.dir("datastore");
        let mut warm = false;
        if let (Some(hops), true) = (sc.prior, reference.shipped_ok) {
            let (then_version, then_epoch, then_file) = reference.trail[(hops as usize).min(reference.trail.len() - 1)];
            let mut spec_then = world::RepoSpec::basic(sc.world, sc.consistent);
            spec_then.root = root_spec(sc, then_epoch, then_version);
            let built_then = world::build(&spec_then);
            let mut files_then = built_then.files.meta.clone();
            files_then.retain(|k, _| !k.ends_with(".root.json"));
            let roots_then = roots_all.clone();
            let t_then = SimTransport::new(move |r| {
                if r.base != Base::Metadata {
                    return Resp::not_found();
                }
                if let Some(v) = r.rel.strip_suffix(".root.json").and_then(|v| v.parse::<u64>().ok()) {
                    return match roots_then.get((v as usize).wrapping_sub(1)) {
                        Some(Some(b)) if v <= then_file => Resp::whole(b),
                        _ => Resp::not_found(),
                    };
                }
                files_then.get(&r.rel).map_or(Resp::not_found(), |b| Resp::whole(b))
            });
            let sb = shipped_bytes.clone();
            let ds2 = ds.clone();
            let then = block_on(async move { world::load(&sb, t_then, Some(&ds2), world::LoadOpts::default()).await.map(|r| r.root().signed.version.get()).map_err(|e| variant(&e)) });
            o.ev(format!("prior cycle up to root v{then_version}: {then:?}"));
            match then {
                Ok(v) if v == then_version => warm = true,
                Ok(v) => {
                    o.violate("stopped-early", format!("an earlier clean cycle ended at root {v}; every hop up to {then_version} is properly double-signed"));
                    return o;
                }
                Err(e) if e == "VerifyTrustedMetadata" || e == "VerifyMetadata" => {
                    o.violate("good-chain-rejected:signature", format!("an earlier cycle over properly double-signed hops up to root {then_version} failed with {e}"));
                    return o;
                }
                Err(e) => {
                    o.harness(format!("the earlier clean cycle failed with {e}"));
                    return o;
                }
            }
        }
        let t2 = transport.clone();
        let ds3 = ds.clone();
        let res = block_on(async move {
            match world::load(&shipped_bytes, t2, Some(&ds3), world::LoadOpts::default()).await {
                Ok(repo) => Ok((repo.root().signed.version.get(), serde_json::to_value(&repo.root().signed).ok())),
                Err(e) => Err((classify(&e), variant(&e))),
            }
        });
        // the root the client ends up trusting, content-wise
        let final_content = res.as_ref().ok().and_then(|(_, v)| v.as_ref()).and_then(J::try_from_value).and_then(|j| json::canon(&j));
        let res = res.map(|(v, _)| v);
        let log = transport.log();
        let root_reqs: Vec<u64> = log.iter().filter_map(|l| l.rel.strip_suffix(".root.json").and_then(|v| v.parse().ok())).collect();
        o.ev(format!("load={:?} root_requests={:?}", res.as_ref().map_err(|e| (e.0.name(), e.1.clone())), root_reqs));

        // ---- oracle
        let shipped_version = (sc.shipped + 1) as u64;
        match &res {
            Ok(v) => {
                if !reference.shipped_ok {
                    o.violate("unverified-shipped-root-accepted", "the shipped root does not meet its own root threshold but the cycle succeeded");
                }
                if *v < shipped_version {
                    o.violate("final-root-below-shipped", format!("final root {v} is lower than the shipped root {shipped_version}"));
                }
                if *v != reference.final_version {
                    let key = if *v > reference.final_version {
                        format!("walked-past-bad-hop:{}", sc.broken.map_or("none".to_string(), |(_, b)| format!("{b:?}")))
                    } else {
                        "stopped-early".to_string()
                    };
                    o.violate(key, format!("cycle succeeded with root version {v}; the last root reachable by acceptable hops is {}", reference.final_version));
                }
                if *v == reference.final_version {
                    // same number is not enough: it has to be the document the walk verified
                    let want = chain[reference.final_epoch].as_ref().and_then(|s| J::parse(&s.bytes)).and_then(|d| d.get("signed").cloned()).and_then(|sg| json::canon(&sg));
                    if want.is_some() && final_content != want {
                        o.violate("final-root-content-differs", format!("the cycle ended with a root of version {v} whose content is not that of the last properly double-signed root"));
                    }
                }
                if !meta_ok_under_final {
                    o.violate("revoked-online-keys-accepted", format!("top-level metadata signed with the online keys of epoch {} was accepted under final root epoch {}", sc.meta_epoch, reference.final_epoch));
                }
            }
            Err((class, var)) => {
                let avail_blocks = sc.avail.is_some_and(|(av, a)| {
                    matches!(a, Avail::StreamOther | Avail::FetchOther) && reference.requests.contains(&av)
                });
                let clean = reference.shipped_ok && !reference.stopped_by_bad_hop && meta_ok_under_final && !avail_blocks;
                if clean {
                    match class {
                        Class::Signature | Class::Rollback => o.violate(
                            format!("good-chain-rejected:{}", class.name()),
                            format!("every hop is properly double-signed and the metadata is signed by the final root's keys, yet the cycle failed with {var}"),
                        ),
                        _ => o.harness(format!("clean chain failed with {var} ({})", class.name())),
                    }
                }
            }
        }
        // fetch log: a prefix of the reference request sequence
        if root_reqs.len() > reference.requests.len() || root_reqs.iter().zip(reference.requests.iter()).any(|(a, b)| a != b) {
            o.violate("root-requests-not-consecutive", format!("root versions requested {root_reqs:?}; a forward-only walk would request a prefix of {:?}", reference.requests));
        }
        if res.is_ok() && root_reqs != reference.requests {
            o.violate("root-walk-stopped-early-or-late", format!("requested {root_reqs:?}, reference {:?}", reference.requests));
        }

        // ---- probes and fault accounting
        if res.is_ok() && reference.final_epoch == n - 1 && sc.shipped < n - 1 && !reference.stopped_by_bad_hop {
            o.probe("walked_full_good_chain");
            let a: BTreeSet<_> = sc.epochs[sc.shipped].root_keys.iter().collect();
            let b: BTreeSet<_> = sc.epochs[n - 1].root_keys.iter().collect();
            if a.is_disjoint(&b) {
                o.probe("rotation_with_disjoint_keys_followed");
            }
        }
        if reference.stopped_by_bad_hop {
            o.probe("stopped_before_bad_hop");
        }
        let mut fired = false;
        if let Some((bi, b)) = sc.broken {
            if root_reqs.contains(&((bi + 1) as u64)) {
                o.fault(&format!("broken:{b:?}"));
                fired = true;
            }
        }
        if let Some((av, a)) = sc.avail {
            if root_reqs.contains(&av) {
                o.fault(&format!("avail:{a:?}"));
                fired = true;
            }
        }
        if !meta_ok_under_final && log.iter().any(|l| l.rel == "timestamp.json") {
            o.fault("metadata_signed_by_revoked_keys");
            fired = true;
        }
        if !reference.shipped_ok {
            o.fault("shipped_root_not_self_verifying");
            fired = true;
        }
        if warm {
            o.probe("warm_datastore_from_earlier_cycle");
        }
        o.nontrivial = fired || (sc.shipped < n - 1 && res.is_ok());
        o
    }
}
