#!/usr/bin/env python3
"""Engine E3 - process-level deterministic simulation for C15 and C20.

Real processes, real kernel, real file system.  The simulator is strace: it kills the traced
process on entry to a chosen system call, or makes that call fail with a chosen error; in addition
a tiny tmpfs provides a genuinely full disk (short writes, ENOSPC).  Fault positions are *enumerated*
from a dry run of the very binary under test, so they follow the code.

usage: procsim.py C15|C20 quick|thorough|replay [FILE]
exit 0 = held, 1 = VIOLATION printed, 2 = harness trouble
"""
import hashlib, json, multiprocessing, os, random, re, shutil, subprocess, sys, time

VERIF = os.environ.get("VERIF_DIR", "/verif")
SIM = os.path.join(VERIF, "target", "release", "simworld")
TUFTOOL = os.path.join(VERIF, "target", "tuftool", "release", "tuftool")
SEED = int(os.environ.get("VERIF_SEED", "20260922"))
THREADS = int(os.environ.get("VERIF_THREADS", str(min(16, os.cpu_count() or 8))))
SCRATCH_BASE = "/dev/shm" if os.path.isdir("/dev/shm") else os.path.join(VERIF, "run")
RUN_ID = os.environ.setdefault("VERIF_PROCSIM_RUN", str(os.getpid()))
RUN_DIR = os.path.join(SCRATCH_BASE, "verif-procsim-" + RUN_ID)
ENV = {k: v for k, v in os.environ.items() if k not in ("RUST_BACKTRACE", "RUST_LIB_BACKTRACE", "RUST_LOG")}
# tuftool's multi-thread runtime would start one worker per core in each of the parallel traced
# processes; two workers keep the runtime multi-threaded without drowning the machine
ENV["TOKIO_WORKER_THREADS"] = "2"

MUTATING = ["write", "pwrite64", "rename", "renameat", "renameat2", "unlink", "unlinkat", "linkat", "ftruncate", "fsync", "fdatasync"]
TRACE_SET = ",".join(["openat"] + MUTATING)


def sh(cmd, **kw):
    return subprocess.run(cmd, stdout=subprocess.PIPE, stderr=subprocess.PIPE, env=ENV, **kw)


def known_findings(prop):
    out = {}
    p = os.path.join(VERIF, "known_findings.jsonl")
    if os.path.exists(p):
        for line in open(p):
            line = line.strip()
            if not line or line.startswith("#"):
                continue
            try:
                v = json.loads(line)
            except ValueError:
                continue
            if v.get("kind") == "finding" and v.get("property") == prop:
                out[v["key"]] = v.get("what", "")
    return out


def dir_state(d):
    """name -> (size, sha256) of the regular files directly inside d"""
    st = {}
    for n in sorted(os.listdir(d)):
        p = os.path.join(d, n)
        if os.path.isfile(p):
            b = open(p, "rb").read()
            st[n] = (len(b), hashlib.sha256(b).hexdigest()[:16])
        else:
            st[n] = ("dir", "")
    return st


def state_key(st, ignore=("latest_known_time.json",)):
    return hashlib.sha256(json.dumps({k: v for k, v in st.items() if k not in ignore}, sort_keys=True).encode()).hexdigest()[:16]


# ------------------------------------------------------------------------------------------ C15

def client_cmd(repo, ds, shipped=None):
    return [SIM, "client", "--root", shipped or os.path.join(repo, "root.json"), "--meta", os.path.join(repo, "metadata"),
            "--targets", os.path.join(repo, "targets"), "--datastore", ds]


def mkrepo(out, world, versions, consistent=False, rotate_at=None, sign_as=None, keep=False):
    cmd = [SIM, "mkrepo", "--out", out, "--world", str(world), "--versions", ",".join(map(str, versions)), "--target", "a.bin:64"]
    if consistent:
        cmd.append("--consistent")
    if rotate_at:
        cmd += ["--rotate-at", str(rotate_at)]
    if sign_as:
        cmd += ["--sign-as-root", str(sign_as)]
    if keep:
        cmd.append("--rotate-keep")
    r = sh(cmd)
    if r.returncode != 0:
        raise RuntimeError("mkrepo failed: %s %s" % (cmd, r.stderr.decode()))


LINE = re.compile(r"^(\d+)\s+(\w+)\((.*)$")


def parse_trace(path, ds):
    """events of the trace: dict(tid, sys, args, ds_path or None, idx = n-th call of sys by tid)"""
    ev = []
    counts = {}
    for line in open(path, errors="replace"):
        m = LINE.match(line)
        if not m:
            continue
        tid, sysc, rest = m.group(1), m.group(2), m.group(3)
        if "<unfinished" in rest or sysc not in (["openat"] + MUTATING):
            continue
        counts[(tid, sysc)] = counts.get((tid, sysc), 0) + 1
        paths = re.findall(r"[\"<](" + re.escape(ds) + r"/[^\">]*)[\">]", rest)
        ev.append({"tid": tid, "sys": sysc, "args": rest.strip()[:160], "ds": paths[-1] if paths else None,
                   "write_open": ("O_WRONLY" in rest or "O_RDWR" in rest or "O_CREAT" in rest), "idx": counts[(tid, sysc)]})
    return ev


def canon_events(ev, ds):
    """thread ids replaced by order of appearance, random temp names masked"""
    order = {}
    out = []
    for e in ev:
        order.setdefault(e["tid"], len(order))
        p = e["ds"]
        if p:
            p = re.sub(r"\.tmp[A-Za-z0-9]+", ".tmpX", os.path.relpath(p, ds))
        out.append((order[e["tid"]], e["sys"], p, e["idx"]))
    return out


def c15_template(args):
    """one template: returns dict(runs, fired, states, violations[], samples[], faults{})"""
    ti, seed, tier = args
    rnd = random.Random(seed * 1000003 + ti)
    W = os.path.join(RUN_DIR, "t%d" % ti)
    shutil.rmtree(W, ignore_errors=True)
    os.makedirs(W)
    res = {"runs": 0, "fired": 0, "violations": [], "faults": {}, "states": set(), "nontrivial": set(), "sample": None, "harness": [], "unmodelled": set()}
    try:
        world = rnd.randrange(1, 10 ** 6)
        consistent = rnd.random() < 0.5
        delegated = rnd.random() < 0.5
        rotate = rnd.random() < 0.25
        v = [rnd.randrange(2, 6) for _ in range(3)]           # timestamp, snapshot, targets at cycle 1
        newer = rnd.choice(["ts", "ts+snap", "all"])
        v2 = list(v)
        v2[0] += 1
        if newer in ("ts+snap", "all"):
            v2[1] += 1
        if newer == "all":
            v2[2] += 1
        dv = [3] if delegated else []
        # every fourth template: the newer root replaces one of two timestamp / snapshot keys and
        # keeps the other, and the repository restarts its timestamp and snapshot versions at 1
        # (legitimate after a rotation: the client discards what it stored under the old keys);
        # stored files still verify under the new root, so a half-done hand-over must not leave
        # them in charge
        restart = ti % 4 == 3
        if restart:
            rotate = True
            v2 = [1, 1, v2[2]]
        tmpl = {"world": world, "consistent": consistent, "delegated": delegated, "rotate": rotate, "restart": restart, "v": v, "v2": v2}
        res["sample"] = tmpl
        R1, R2 = os.path.join(W, "r1"), os.path.join(W, "r2")
        mkrepo(R1, world, [1] + v + dv, consistent, keep=restart)
        mkrepo(R2, world, [2 if rotate else 1] + v2 + dv, consistent, rotate_at=2 if rotate else None, keep=restart)
        # replayed older states: exactly one of (timestamp, snapshot, targets) is older than cycle 1's
        older = {}
        for name, vv in (("older-timestamp", [v[0] - 1, v[1], v[2]]), ("older-snapshot", [v[0], v[1] - 1, v[2]]), ("older-targets", [v[0], v[1], v[2] - 1])):
            d = os.path.join(W, name)
            # the adversary replays old metadata but cannot make the published root chain shrink
            mkrepo(d, world, [2 if rotate else 1] + vv + dv, consistent, rotate_at=2 if rotate else None, sign_as=1, keep=restart)
            older[name] = d
        shipped = os.path.join(R1, "root.json")
        DS0 = os.path.join(W, "ds0")
        os.makedirs(DS0)
        r = sh(client_cmd(R1, DS0))
        if r.returncode != 0:
            res["harness"].append("cycle 1 failed with exit %d" % r.returncode)
            return finish(res, W)

        follow_cache = {}

        def followups(ds, label):
            """(a) replayed older repositories must be refused, (b) the current one must load"""
            st = dir_state(ds)
            key = state_key(st)
            res["states"].add(key)
            if key in follow_cache:
                return follow_cache[key]
            out = []
            # with a retained key and restarted versions an old-key replay next to the newer root is
            # legitimately acceptable once the hand-over happened: only clause (b) is judged then
            for name, d in ([] if restart else sorted(older.items())):
                t = os.path.join(W, "fu")
                shutil.rmtree(t, ignore_errors=True)
                shutil.copytree(ds, t)
                rr = sh(client_cmd(d, t, shipped))
                if rr.returncode == 0:
                    out.append(("rollback-accepted-after-interruption:%s" % name, st))
                elif rr.returncode < 20:
                    res["harness"].append("follow-up client exit %d" % rr.returncode)
            t = os.path.join(W, "fu")
            shutil.rmtree(t, ignore_errors=True)
            shutil.copytree(ds, t)
            rr = sh(client_cmd(R2, t, shipped))
            if rr.returncode != 0:
                out.append(("valid-repository-refused-after-interruption:exit%d" % rr.returncode, st))
            follow_cache[key] = out
            return out

        # sanity: the untouched datastore protects, and lets the newer repository in
        base = followups(DS0, "baseline")
        if base:
            res["harness"].append("baseline follow-ups fail without any fault: %s" % [b[0] for b in base])
            return finish(res, W)

        # ---- names of the datastore files (before, and after a complete untraced cycle 2)
        DS = os.path.join(W, "ds")
        shutil.rmtree(DS, ignore_errors=True)
        shutil.copytree(DS0, DS)
        r = sh(client_cmd(R2, DS, shipped))
        if r.returncode != 0:
            res["harness"].append("untraced cycle 2 failed with exit %d" % r.returncode)
            return finish(res, W)
        names = set(os.listdir(DS0)) | set(os.listdir(DS))
        # plus every file name inside the datastore that the cycle touches and that is the same in
        # two unfiltered dry runs (fixed temporary names such as "x.json.tmp"; random ones differ)
        seen = []
        for k in range(2):
            shutil.rmtree(DS, ignore_errors=True)
            shutil.copytree(DS0, DS)
            log = os.path.join(W, "names%d.log" % k)
            sh(["strace", "-f", "-y", "-qq", "-e", "trace=" + TRACE_SET, "-o", log] + client_cmd(R2, DS, shipped))
            seen.append({os.path.basename(e["ds"]) for e in parse_trace(log, DS) if e["ds"]})
        names |= (seen[0] & seen[1])
        names = sorted(names)
        after = followups(DS, "complete")
        for key, st in after:
            res["violations"].append({"key": key + ":no-fault", "template": tmpl, "template_index": ti, "tier": tier, "fault": None, "state": {k: list(v) for k, v in st.items()}})

        def pflags(ds):
            # strace -P: only system calls that touch one of the datastore files (by path or by
            # descriptor) are traced and counted, which removes the timing-dependent eventfd
            # wake-ups of the runtime from the count
            out = []
            for n in names:
                out += ["-P", os.path.join(ds, n)]
            return out

        # ---- dry run (twice: the filtered event sequence must be stable)
        seqs = []
        for k in range(2):
            shutil.rmtree(DS, ignore_errors=True)
            shutil.copytree(DS0, DS)
            log = os.path.join(W, "dry%d.log" % k)
            r = sh(["strace", "-f", "-y", "-qq"] + pflags(DS) + ["-e", "trace=" + TRACE_SET, "-o", log] + client_cmd(R2, DS, shipped))
            if r.returncode != 0:
                res["harness"].append("dry run of cycle 2 failed with exit %d" % r.returncode)
                return finish(res, W)
            seqs.append(parse_trace(log, DS))
        if canon_events(seqs[0], DS) != canon_events(seqs[1], DS):
            res["harness"].append("cycle 2 datastore syscall sequence is not stable between two dry runs")
            return finish(res, W)
        ev = seqs[0]
        io_tids = {e["tid"] for e in ev}
        if len(io_tids) > 1:
            res["harness"].append("more than one thread touches the datastore")
            return finish(res, W)

        # ---- positions: every datastore-touching call that can change state, in order
        positions = []
        for e in ev:
            what = os.path.basename(e["ds"]) if e["ds"] else "?"
            if e["sys"] in MUTATING:
                for kind in ("kill", "EIO", "ENOSPC"):
                    positions.append({"sys": e["sys"], "when": e["idx"], "kind": kind, "what": what})
            elif e["sys"] == "openat" and e["write_open"]:
                for kind in ("kill", "EIO", "ENOSPC", "EACCES"):
                    positions.append({"sys": "openat", "when": e["idx"], "kind": kind, "what": what})
        # the state after the very last call is the complete cycle (checked above); the state
        # after call k is the state on entry to call k+1, so kills cover "before" and "after"
        if tier == "quick" and len(positions) > 45:
            keep = rnd.sample(range(len(positions)), 45)
            positions = [positions[i] for i in sorted(keep)]
        # a genuinely full disk: the datastore on a tmpfs with 0..2 free pages
        for free_pages in (0, 1, 2):
            positions.append({"sys": "tmpfs", "when": free_pages, "kind": "disk-full", "what": "datastore"})

        for pos in positions:
            shutil.rmtree(DS, ignore_errors=True)
            mounted = False
            if pos["sys"] == "tmpfs":
                os.makedirs(DS)
                if sh(["mount", "-t", "tmpfs", "-o", "size=64k", "tmpfs", DS]).returncode != 0:
                    os.rmdir(DS)
                    continue
                mounted = True
                for n in os.listdir(DS0):
                    shutil.copy(os.path.join(DS0, n), os.path.join(DS, n))
                stv = os.statvfs(DS)
                fill = stv.f_bavail * stv.f_frsize - pos["when"] * 4096
                try:
                    with open(os.path.join(DS, ".filler"), "wb") as f:
                        f.write(b"\0" * max(0, fill))
                except OSError:
                    pass
                r = sh(client_cmd(R2, DS, shipped))
                # the disk was full whatever the client reports (a client that swallows the write
                # error exits 0): always judge the resulting datastore
                log = "INJECTED"
                try:
                    os.unlink(os.path.join(DS, ".filler"))
                except OSError:
                    pass
                # continue on an ordinary directory with the resulting files
                tmpcopy = os.path.join(W, "dscopy")
                shutil.rmtree(tmpcopy, ignore_errors=True)
                shutil.copytree(DS, tmpcopy)
                sh(["umount", DS])
                os.rmdir(DS)
                os.rename(tmpcopy, DS)
            else:
                shutil.copytree(DS0, DS)
                fault = "signal=KILL" if pos["kind"] == "kill" else "error=" + pos["kind"]
                cmd = ["strace", "-f", "-qq", "-o", os.path.join(W, "inj.log")] + pflags(DS)
                cmd += ["-e", "trace=" + pos["sys"], "-e", "inject=%s:%s:when=%d" % (pos["sys"], fault, pos["when"])] + client_cmd(R2, DS, shipped)
                r = sh(cmd)
                log = open(os.path.join(W, "inj.log"), errors="replace").read()
            res["runs"] += 1
            fired = ("INJECTED" in log) or ("killed by SIGKILL" in log) or r.returncode in (-9, 137)
            if not fired:
                continue
            res["fired"] += 1
            fk = "%s:%s" % (pos["kind"], pos["sys"])
            res["faults"][fk] = res["faults"].get(fk, 0) + 1
            st = dir_state(DS)
            if state_key(st) not in (state_key(dir_state(DS0)),):
                res["nontrivial"].add((pos["sys"], pos["kind"], pos["what"], state_key(st)))
            for key, st2 in followups(DS, pos):
                damaged = sorted(n for n, (sz, _) in st2.items() if sz == 0)
                missing = sorted(n for n in os.listdir(DS0) if n not in st2)
                label = ";".join(x for x in ("empty=" + ",".join(damaged) if damaged else "", "missing=" + ",".join(missing) if missing else "") if x) or "files-intact"
                res["violations"].append({"key": "%s:%s" % (key, label), "template": tmpl, "template_index": ti, "tier": tier, "fault": pos, "state": {k: list(v) for k, v in st2.items()}})
        # ---- read faults: a cycle against each REPLAYED OLDER repository during which opening one of
        # the stored files for reading fails (EIO / EACCES / EMFILE). A stored file that cannot be
        # read is not "nothing stored": the cycle must not accept the older metadata, and whatever it
        # leaves behind must keep refusing it. (Not in the restart templates, where an old-key replay
        # is legitimately acceptable after the hand-over.)
        if not restart:
            for oname, od in sorted(older.items()):
                shutil.rmtree(DS, ignore_errors=True)
                shutil.copytree(DS0, DS)
                log = os.path.join(W, "rdry.log")
                sh(["strace", "-f", "-y", "-qq"] + pflags(DS) + ["-e", "trace=" + TRACE_SET, "-o", log] + client_cmd(od, DS, shipped))
                reads = [e for e in parse_trace(log, DS) if e["sys"] == "openat" and not e["write_open"] and e["ds"] and os.path.basename(e["ds"]) in os.listdir(DS0)]
                if tier == "quick" and len(reads) > 4:
                    reads = reads[:4]
                for e in reads:
                    for kind in ("EIO", "EACCES", "EMFILE"):
                        what = os.path.basename(e["ds"])
                        pos = {"sys": "openat", "when": e["idx"], "kind": kind, "what": what, "read_of": what, "during": oname}
                        shutil.rmtree(DS, ignore_errors=True)
                        shutil.copytree(DS0, DS)
                        cmd = ["strace", "-f", "-qq", "-o", os.path.join(W, "inj.log")] + pflags(DS)
                        cmd += ["-e", "trace=openat", "-e", "inject=openat:error=%s:when=%d" % (kind, e["idx"])] + client_cmd(od, DS, shipped)
                        r = sh(cmd)
                        res["runs"] += 1
                        if "INJECTED" not in open(os.path.join(W, "inj.log"), errors="replace").read():
                            continue
                        res["fired"] += 1
                        fk = "%s:read-open" % kind
                        res["faults"][fk] = res["faults"].get(fk, 0) + 1
                        st = dir_state(DS)
                        res["nontrivial"].add(("openat-read", kind, what, oname, r.returncode == 0))
                        if r.returncode == 0:
                            res["violations"].append({"key": "rollback-accepted-while-stored-file-unreadable:%s:%s" % (oname, what), "template": tmpl, "template_index": ti, "tier": tier,
                                                      "fault": pos, "state": {k: list(v) for k, v in st.items()}})
                            continue
                        for key, st2 in followups(DS, pos):
                            res["violations"].append({"key": "%s:after-read-error-of-%s" % (key, what), "template": tmpl, "template_index": ti, "tier": tier, "fault": pos,
                                                      "state": {k: list(v) for k, v in st2.items()}})
    except Exception as e:  # noqa
        res["harness"].append("exception: %r" % (e,))
    return finish(res, W)


def finish(res, W):
    shutil.rmtree(W, ignore_errors=True)
    res["states"] = sorted(map(str, res["states"]))
    res["nontrivial"] = sorted(map(str, res["nontrivial"]))
    res["unmodelled"] = sorted(res["unmodelled"])
    return res


def run_c15(tier, replay=None):
    t0 = time.time()
    known = known_findings("C15")
    if replay:
        spec = json.load(open(replay))
        out = c15_replay(spec)
        return out
    n = 8 if tier == "quick" else 150
    n = int(os.environ.get("VERIF_RUNS", n))
    print("check=C15 tier=%s VERIF_SEED=%d templates=%d threads=%d" % (tier, SEED, n, THREADS), flush=True)
    with multiprocessing.Pool(THREADS) as pool:
        results = pool.map(c15_template, [(i, SEED, tier) for i in range(n)])
    return report("C15", tier, results, known, t0,
                  rule="per template (seeded: versions, which roles are newer, consistent snapshots, delegated role, root rotation; every fourth template rotates with one of two online keys retained and restarts the timestamp and snapshot versions at 1; in the other templates also a cycle against each replayed older repository during which opening a stored file for reading fails with EIO / EACCES / EMFILE) a successful cycle 1, then cycle 2 against a newer repository with EVERY datastore-related system call position enumerated from a dry run of the binary under test: SIGKILL on entry to each open-for-write / write / rename / unlink and just after each of them, and EIO / ENOSPC / EACCES as their result; each resulting datastore is then offered three replayed older repositories (must be refused) and the current one (must load); non-trivial = the fault fired and left a datastore different from the pre-cycle state; distinct = distinct (syscall, fault kind, file, resulting state)",
                  level="fault_enumeration",
                  assumptions=["process death, not power loss: what a completed system call wrote is durable (missing fsync is invisible)",
                               "the client's datastore I/O is issued by one thread in a fixed order (checked by two dry runs per template)",
                               "older repositories are genuinely signed with the keys of the shipped root"],
                  components={"real": ["tough client (load) in its own process", "tokio::fs datastore I/O", "Linux kernel and file system"],
                              "stub": ["none below the process; the simulator is strace syscall injection", "foreign publisher writes the repositories"]})


def c15_replay(spec):
    """re-run the template the violation came from (templates are a pure function of seed and index)"""
    r = c15_template((spec["template_index"], spec.get("seed", SEED), spec.get("tier", "quick")))
    for v in r["violations"]:
        if v["key"] == spec["key"]:
            print("VIOLATION property=C15 replay=%s" % spec.get("_path", "?"))
            print("  key=%s fault=%s" % (v["key"], json.dumps(v.get("fault"))))
            return 1
    for h in r["harness"]:
        print("HARNESS: %s" % h, file=sys.stderr)
    print("replay did not violate")
    return 0


# ------------------------------------------------------------------------------------------ C20

def canon(o):
    """OLPC canonical JSON (third implementation, for key ids)"""
    if isinstance(o, dict):
        return b"{" + b",".join(canon(k) + b":" + canon(o[k]) for k in sorted(o)) + b"}"
    if isinstance(o, list):
        return b"[" + b",".join(canon(x) for x in o) + b"]"
    if isinstance(o, str):
        return b'"' + o.replace("\\", "\\\\").replace('"', '\\"').encode("utf-8") + b'"'
    if o is True:
        return b"true"
    if o is False:
        return b"false"
    if o is None:
        return b"null"
    if isinstance(o, int):
        return str(o).encode()
    raise ValueError("float in canonical json")


ROLES = ["root", "snapshot", "targets", "timestamp"]


def c20_program(args):
    pi, seed, tier = args
    rnd = random.Random(seed * 7919 + pi)
    base = os.path.join(RUN_DIR, "p%d" % pi)
    shutil.rmtree(base, ignore_errors=True)
    os.makedirs(base)
    res = {"runs": 0, "fired": 0, "violations": [], "faults": {}, "states": set(), "nontrivial": set(), "sample": None, "harness": [], "unmodelled": set()}
    mounted = None
    try:
        keydir = os.path.join(base, "keys")
        if sh([SIM, "dumpkeys", "--out", keydir]).returncode != 0:
            res["harness"].append("dumpkeys failed")
            return finish(res, base)
        keys = json.load(open(os.path.join(keydir, "keys.json")))
        focus = c20_focus(pi)
        nkeys = focus["nkeys"] if focus else rnd.randrange(1, 5)
        allkeys = keys
        keys = rnd.sample(keys, min(nkeys, len(keys)))
        if focus and focus.get("first_key"):
            pref = [k for k in allkeys if k["file"].startswith(focus["first_key"])]
            if pref:
                keys = [pref[0]] + [k for k in keys if k["keyid"] != pref[0]["keyid"]][:nkeys - 1]
        work = os.path.join(base, "work")
        os.makedirs(work)
        use_tmpfs = rnd.random() < 0.35 and not focus
        if use_tmpfs:
            r = sh(["mount", "-t", "tmpfs", "-o", "size=64k", "tmpfs", work])
            if r.returncode == 0:
                mounted = work
            else:
                use_tmpfs = False
        path = os.path.join(work, "root.json")
        model = None  # dict: version, keys{id:key}, roles{role:{keyids,threshold}}, expires or None, consistent
        program = []
        # a sensible skeleton first (possibly cut short), then random commands; a content-changing
        # command is often preceded by a `sign` so that there are signatures it has to remove
        plan = ["init"]
        skeleton_keys = keys[:focus["skeleton_keys"]] if focus else keys
        for k in skeleton_keys:
            plan.append(("add-key", k))
        plan.append("thresholds")
        plan.append({"op": "sign", "keys": list(range(len(skeleton_keys)))})
        if focus:
            plan += focus["steps"]
        else:
            if rnd.random() < 0.15:
                plan = plan[:rnd.randrange(1, len(plan))]
            for _ in range(rnd.randrange(2, 10)):
                nxt = rnd.choice(["add-key", "add-key", "remove-key", "set-threshold", "set-threshold", "set-version", "bump-version", "expire", "sign", "sign", "sign-ignore", "sign-missing-key", "init"])
                if nxt not in ("sign", "sign-ignore", "sign-missing-key", "init") and rnd.random() < 0.5:
                    plan.append("sign")
                plan.append(nxt)
        for step in plan:
            cmd = None
            expect = None  # function(model) -> new model, or None when the command must fail
            par = step if isinstance(step, dict) else {}
            if isinstance(step, dict):
                step = par["op"]
            if step == "init":
                ver = rnd.choice([None, 1, 7, 2 ** 32])
                cmd = ["root", "init", path] + (["--version", str(ver)] if ver else [])
                def expect(m, ver=ver):
                    return {"version": ver or 1, "keys": {}, "roles": {r: {"keyids": [], "threshold": 1507} for r in ROLES}, "expires": None, "consistent": True}
            elif isinstance(step, tuple) or step == "add-key":
                k = step[1] if isinstance(step, tuple) else (keys[par["key"] % len(keys)] if "key" in par else rnd.choice(keys))
                roles = ROLES if isinstance(step, tuple) else par.get("roles") or rnd.sample(ROLES, rnd.randrange(1, 4))
                cmd = ["root", "add-key", path, "-k", os.path.join(keydir, k["file"])] + sum([["-r", r] for r in roles], [])
                def expect(m, k=k, roles=roles):
                    m = json.loads(json.dumps(m))
                    m["keys"][k["keyid"]] = k["key"]
                    for r in roles:
                        if k["keyid"] not in m["roles"][r]["keyids"]:
                            m["roles"][r]["keyids"].append(k["keyid"])
                    return m
            elif step == "thresholds":
                # make the root signable: threshold 1 for every role, one command per role
                for r in ROLES:
                    program.append((["root", "set-threshold", path, r, "1"], (lambda m, r=r: set_thr(m, r, 1)), "set-threshold"))
                continue
            elif step == "remove-key":
                k = keys[par["key"] % len(keys)] if "key" in par else rnd.choice(keys)
                role = par["role"] if "role" in par else rnd.choice([None] + ROLES)
                cmd = ["root", "remove-key", path, k["keyid"]] + ([role] if role else [])
                def expect(m, k=k, role=role):
                    m = json.loads(json.dumps(m))
                    for r in ([role] if role else ROLES):
                        if k["keyid"] in m["roles"][r]["keyids"]:
                            m["roles"][r]["keyids"].remove(k["keyid"])
                    if not role:
                        m["keys"].pop(k["keyid"], None)
                    return m
            elif step == "set-threshold":
                r, t = rnd.choice(ROLES + ["root"] * 3), rnd.choice([0, 1, 1, 2, 2, 3])
                if "role" in par:
                    r, t = par["role"], par["t"]
                cmd = ["root", "set-threshold", path, r, str(t)]
                expect = (lambda m, r=r, t=t: set_thr(m, r, t)) if t > 0 else None
            elif step == "set-version":
                v = par["v"] if "v" in par else rnd.choice([0, 1, 5, 5, 2 ** 32, 2 ** 64 - 1, 2 ** 64])
                cmd = ["root", "set-version", path, str(v)]
                expect = (lambda m, v=v: dict(m, version=v)) if 0 < v < 2 ** 64 else None
            elif step == "bump-version":
                cmd = ["root", "bump-version", path]
                def expect(m):
                    if m["version"] + 1 >= 2 ** 64:
                        return None
                    return dict(m, version=m["version"] + 1)
            elif step == "expire":
                when = par.get("when") or rnd.choice(["2031-02-03T04:05:06Z", "in 7 days", "not a date"])
                cmd = ["root", "expire", path, when]
                if when == "not a date":
                    expect = None
                else:
                    expect = lambda m, when=when: dict(m, expires=(when if when.endswith("Z") else None))
            elif step in ("sign", "sign-ignore", "sign-missing-key"):
                ks = [keys[i % len(keys)] for i in par["keys"]] if "keys" in par else rnd.sample(keys, rnd.randrange(1, len(keys) + 1))
                files = [os.path.join(keydir, k["file"]) for k in ks]
                if step == "sign-missing-key":
                    files.append(os.path.join(keydir, "does-not-exist.pem"))
                cmd = ["root", "sign", path] + sum([["-k", f] for f in files], []) + (["--ignore-threshold"] if step == "sign-ignore" else [])
                expect = "sign-ignore" if step == "sign-ignore" else "sign"
            if cmd:
                program.append((cmd, expect, step if isinstance(step, str) else "add-key"))
        res["sample"] = {"keys": [k["file"] for k in keys], "tmpfs": bool(mounted), "commands": [" ".join(os.path.basename(a) if a.startswith("/") else a for a in c[0]) for c in program]}

        unsigned_since_change = True
        for ci, (cmd, expect, name) in enumerate(program):
            before = open(path, "rb").read() if os.path.exists(path) else None
            # ---- fault inside a seeded third of the commands
            fault = None
            if rnd.random() < 0.34 and before is not None and not focus:
                choices = ["rename-EIO", "rename-EACCES", "unlink-EIO", "open-root-EIO", "open-root-EACCES", "fsync-EIO", "rename-KILL", "write-KILL", "write-KILL"]
                if mounted:
                    choices += ["disk-full"] * 4
                fault = rnd.choice(choices)
            full = [TUFTOOL] + cmd
            filler = None
            if fault == "disk-full":
                free = rnd.choice([0, 0, 200, 1500])
                filler = os.path.join(work, ".filler")
                try:
                    stv = os.statvfs(work)
                    avail = stv.f_bavail * stv.f_frsize
                    with open(filler, "wb") as f:
                        f.write(b"\0" * max(0, avail - free))
                except OSError:
                    pass
            elif fault == "rename-KILL":
                # the process dies on entry to the call that would publish the new file
                full = ["strace", "-f", "-qq", "-o", "/dev/null", "-e", "trace=rename,renameat,renameat2,linkat", "-e", "inject=rename,renameat,renameat2,linkat:signal=KILL"] + full
            elif fault == "write-KILL":
                k = rnd.randrange(1, 7)
                full = ["strace", "-f", "-qq", "-o", "/dev/null", "-e", "trace=write", "-e", "inject=write:signal=KILL:when=%d" % k] + full
            elif fault and fault.startswith("rename"):
                e = fault.split("-")[1]
                full = ["strace", "-f", "-qq", "-o", "/dev/null", "-e", "trace=rename,renameat,renameat2,linkat", "-e", "inject=rename,renameat,renameat2,linkat:error=%s" % e] + full
            elif fault and fault.startswith("unlink"):
                full = ["strace", "-f", "-qq", "-o", "/dev/null", "-e", "trace=unlink,unlinkat", "-e", "inject=unlink,unlinkat:error=EIO"] + full
            elif fault and fault.startswith("fsync"):
                full = ["strace", "-f", "-qq", "-o", "/dev/null", "-e", "trace=fsync,fdatasync", "-e", "inject=fsync,fdatasync:error=EIO"] + full
            elif fault and fault.startswith("open-root"):
                e = fault.split("-")[2]
                full = ["strace", "-f", "-qq", "-o", "/dev/null", "-P", path, "-e", "trace=openat", "-e", "inject=openat:error=%s" % e] + full
            try:
                r = subprocess.run(full, stdout=subprocess.PIPE, stderr=subprocess.PIPE, env=ENV, timeout=300)
                rc = r.returncode
            except subprocess.TimeoutExpired:
                res["harness"].append("tuftool timed out: %s" % cmd)
                break
            finally:
                if filler and os.path.exists(filler):
                    os.unlink(filler)
            res["runs"] += 1
            if fault:
                res["fired"] += 1
                res["faults"][fault] = res["faults"].get(fault, 0) + 1
            after = open(path, "rb").read() if os.path.exists(path) else None
            ctx = {"program_index": pi, "command_index": ci, "command": res["sample"]["commands"][ci], "fault": fault, "exit": rc}
            strays = [n for n in os.listdir(work) if n not in ("root.json",)]
            if rc in (-9, 137):
                # killed: the file is the old one or a complete new one, never anything else
                res["states"].add(("killed", name, fault))
                res["nontrivial"].add((name, fault, "killed"))
                if after != before:
                    ok_new = False
                    try:
                        d1 = json.loads(after.decode())
                        s1 = d1["signed"]
                        ok_new = (s1.get("_type") == "root" and all(hashlib.sha256(canon(k)).hexdigest() == kid.lower() for kid, k in s1["keys"].items())
                                  and (name in ("sign", "sign-ignore", "sign-missing-key") or not d1.get("signatures")))
                    except (ValueError, KeyError, TypeError, AttributeError):
                        ok_new = False
                    if not ok_new:
                        res["violations"].append(dict(ctx, key="crash-left-root-json-damaged:%s:%s" % (name, fault),
                                                      detail="the process was killed and root.json is neither the previous file nor a well-formed new one (%s bytes)" % (after and len(after))))
                        break
                    s1 = json.loads(after.decode())["signed"]
                    model = {"version": s1["version"], "keys": s1["keys"], "roles": {r: {"keyids": s1["roles"][r]["keyids"], "threshold": s1["roles"][r]["threshold"]} for r in s1["roles"]},
                             "expires": None, "consistent": s1["consistent_snapshot"]}
                for n2 in os.listdir(work):
                    # a crash may leave a temporary file behind; remove it so that later "stray file" checks stay meaningful
                    if n2 not in ("root.json",) and n2.startswith(".tmp"):
                        os.unlink(os.path.join(work, n2))
                continue
            if rc != 0:
                res["states"].add(("fail", name, fault))
                if after != before:
                    res["violations"].append(dict(ctx, key="failed-command-changed-root-json:%s:%s" % (name, fault or "no-fault"),
                                                  detail="exit %d but root.json changed (before %s bytes, after %s bytes)" % (rc, before and len(before), after and len(after))))
                    break
                if fault:
                    res["nontrivial"].add((name, fault, "refused"))
                continue
            # ---- exit 0
            if expect is None and name != "init":
                # the model says this command cannot succeed; the statement only constrains the file
                pass
            # parse and key-id checks in-process (third canonical-JSON implementation); the
            # signature facts need the helper binary and are only fetched for `sign`
            facts = {}
            try:
                d0 = json.loads(after.decode())
                s0 = d0["signed"]
                ok_shape = (s0.get("_type") == "root" and isinstance(s0.get("version"), int) and s0["version"] > 0 and isinstance(s0.get("expires"), str)
                            and isinstance(s0.get("consistent_snapshot"), bool) and isinstance(d0.get("signatures"), list)
                            and all(r in s0["roles"] and isinstance(s0["roles"][r]["threshold"], int) and s0["roles"][r]["threshold"] > 0 for r in ROLES))
                facts["parses_as_root"] = bool(ok_shape)
                facts["keyids_ok"] = all(hashlib.sha256(canon(k)).hexdigest() == kid.lower() for kid, k in s0["keys"].items())
            except (ValueError, KeyError, TypeError):
                facts["parses_as_root"] = False
            if expect == "sign" and facts.get("parses_as_root"):
                f2 = sh([SIM, "verifyroot", path])
                try:
                    f2 = json.loads(f2.stdout.decode())
                except ValueError:
                    f2 = {}
                facts["parses_as_root"] = bool(f2.get("parses_as_root"))
                facts["keyids_ok"] = facts.get("keyids_ok") and bool(f2.get("keyids_ok"))
                for k in ("library_verifies", "independent_valid_ed25519", "signatures"):
                    facts[k] = f2.get(k)
            doc = json.loads(after.decode())
            s = doc["signed"]
            if expect == "sign-ignore":
                # the statement asks nothing of the signatures here; the content must stay as it was
                if before is not None and canon(json.loads(before.decode())["signed"]) != canon(s):
                    res["violations"].append(dict(ctx, key="sign-changed-content", detail="signing (ignore-threshold) altered the signed portion"))
                    break
                res["states"].add(("ok", name, fault))
                continue
            if expect == "sign":
                if model is not None:
                    if before is not None and canon(json.loads(before.decode())["signed"]) != canon(s):
                        res["violations"].append(dict(ctx, key="sign-changed-content", detail="signing altered the signed portion"))
                        break
                    need = s["roles"]["root"]["threshold"]
                    if not facts.get("library_verifies"):
                        res["violations"].append(dict(ctx, key="signed-root-does-not-verify:%s" % (fault or "no-fault"),
                                                      detail="plain `sign` exited 0 but the root does not verify under its own root keys (threshold %s, %s signatures)" % (need, facts.get("signatures"))))
                        break
                    ed_root = [k for k in s["roles"]["root"]["keyids"] if s["keys"].get(k, {}).get("keytype") == "ed25519"]
                    if len(ed_root) == len(s["roles"]["root"]["keyids"]) and facts.get("independent_valid_ed25519", 0) < need:
                        res["violations"].append(dict(ctx, key="signed-root-fails-independent-verification", detail="library says verified, independent Ed25519 check over the reference canonical form disagrees"))
                        break
                    res["nontrivial"].add(("sign", fault, "verifies"))
                res["states"].add(("ok", name, fault))
                continue
            new = expect(model) if (expect and (model is not None or name == "init")) else None
            if new is None:
                # succeeded although the model expected a refusal: judge the file on its own terms
                new = None
            if name != "sign" and doc.get("signatures"):
                res["violations"].append(dict(ctx, key="stale-signatures-kept:%s" % name, detail="content-changing command left %d signature(s) in place" % len(doc["signatures"])))
                break
            if new is not None:
                got = {"version": s["version"], "keys": s["keys"], "roles": {r: {"keyids": s["roles"][r]["keyids"], "threshold": s["roles"][r]["threshold"]} for r in s["roles"]},
                       "consistent": s["consistent_snapshot"]}
                want = {"version": new["version"], "keys": new["keys"], "roles": new["roles"], "consistent": new["consistent"]}
                if canon(got) != canon(want):
                    diff = [k for k in want if canon(got.get(k)) != canon(want[k])]
                    res["violations"].append(dict(ctx, key="root-content-differs-from-commands:%s" % name, detail="fields %s differ from what the commands so far imply" % diff))
                    break
                if new.get("expires") and s["expires"] != new["expires"]:
                    res["violations"].append(dict(ctx, key="root-content-differs-from-commands:expire", detail="expires is %s" % s["expires"]))
                    break
                model = new
            else:
                # re-read the model from the file (keeps the run going after an unexpected success)
                model = {"version": s["version"], "keys": s["keys"], "roles": {r: {"keyids": s["roles"][r]["keyids"], "threshold": s["roles"][r]["threshold"]} for r in s["roles"]},
                         "expires": None, "consistent": s["consistent_snapshot"]}
            if strays and not mounted:
                res["violations"].append(dict(ctx, key="stray-files-left-behind", detail="files next to root.json after a successful command: %s" % strays))
                break
            res["states"].add(("ok", name, fault))
            if fault:
                res["nontrivial"].add((name, fault, "succeeded"))
    except Exception as e:  # noqa
        import traceback
        res["harness"].append("exception: %r %s" % (e, traceback.format_exc()[-300:]))
    finally:
        if mounted:
            sh(["umount", mounted])
    return finish(res, base)


C20_FOCUS_OPS = ["add-key-existing", "add-key-new", "remove-key", "remove-key-role", "set-threshold", "set-version", "bump-version", "expire"]


def c20_focus(pi):
    """Directed programs that come first in every batch (no faults): each content-changing subcommand
    directly after a successful `sign` (twice, with a re-sign in between), and `sign` with fewer keys
    than a root threshold of 2 or 3."""
    n = len(C20_FOCUS_OPS)
    if pi < n:
        op = C20_FOCUS_OPS[pi]
        one = {
            "add-key-existing": {"op": "add-key", "key": 0, "roles": ["targets"]},
            "add-key-new": {"op": "add-key", "key": 2, "roles": ["snapshot", "root"]},
            "remove-key": {"op": "remove-key", "key": 1, "role": None},
            "remove-key-role": {"op": "remove-key", "key": 1, "role": "timestamp"},
            "set-threshold": {"op": "set-threshold", "role": "root", "t": 2},
            "set-version": {"op": "set-version", "v": 5},
            "bump-version": {"op": "bump-version"},
            "expire": {"op": "expire", "when": "2031-02-03T04:05:06Z"},
        }[op]
        two = dict(one)
        if op == "set-version":
            two["v"] = 9
        if op == "add-key-existing":
            two["roles"] = ["snapshot"]
        if op == "set-threshold":
            two = {"op": "set-threshold", "role": "snapshot", "t": 2}
        # key 2 is not part of the skeleton, so `add-key-new` really adds a key; re-sign with keys
        # that are still root keys and meet the root threshold at that point
        resign = {"op": "sign", "keys": [0, 1] if op == "set-threshold" else [0]}
        return {"nkeys": 3, "skeleton_keys": 2, "steps": [one, resign, two, resign]}
    pi -= n
    if pi < 4:
        nk = 2 + pi % 2
        few = [0] if pi < 2 else list(range(nk - 1))
        steps = [{"op": "set-threshold", "role": "root", "t": nk}, {"op": "sign", "keys": few}, {"op": "sign-ignore", "keys": few}, {"op": "sign", "keys": few},
                 {"op": "sign", "keys": list(range(nk))},
                 {"op": "bump-version"}, {"op": "sign-ignore", "keys": few}, {"op": "sign", "keys": few}, {"op": "sign", "keys": few}, {"op": "sign", "keys": list(range(nk))}]
        # the first key is RSA or ECDSA (randomised signatures: signing twice gives two different
        # signature values for one key), alternating
        return {"nkeys": nk, "skeleton_keys": nk, "steps": steps, "first_key": ["rsa", "ecdsa"][pi % 2]}
    return None


def set_thr(m, r, t):
    m = json.loads(json.dumps(m))
    m["roles"][r]["threshold"] = t
    return m


def run_c20(tier, replay=None):
    t0 = time.time()
    known = known_findings("C20")
    if not os.path.exists(TUFTOOL):
        print("HARNESS: tuftool binary missing at %s" % TUFTOOL, file=sys.stderr)
        return 2
    if replay:
        spec = json.load(open(replay))
        r = c20_program((spec["program_index"], spec.get("seed", SEED), "quick"))
        for v in r["violations"]:
            if v["key"] == spec["key"]:
                print("VIOLATION property=C20 replay=%s" % replay)
                print("  key=%s detail=%s" % (v["key"], v["detail"]))
                return 1
        print("replay did not violate")
        return 0
    n = 96 if tier == "quick" else 3000
    n = int(os.environ.get("VERIF_RUNS", n))
    print("check=C20 tier=%s VERIF_SEED=%d programs=%d threads=%d" % (tier, SEED, n, THREADS), flush=True)
    with multiprocessing.Pool(THREADS) as pool:
        results = pool.map(c20_program, [(i, SEED, tier) for i in range(n)])
    return report("C20", tier, results, known, t0,
                  rule="12 directed programs first (each content-changing subcommand right after a successful sign, twice with a re-sign in between; sign with fewer keys than a root threshold of 2 or 3, also repeatedly and after a sign --ignore-threshold by the same RSA or ECDSA key), then seeded command programs: skeleton init / add-key per key / thresholds / sign (sometimes cut short) followed by 2..9 random `tuftool root` subcommands (init, add-key, remove-key, set-threshold, set-version, bump-version, expire, sign, sign --ignore-threshold), content-changing ones preceded by a sign half of the time, over 1..4 keys (RSA, ECDSA, Ed25519), including commands that must fail (missing key file, threshold 0, version 0 / 2^64, unparsable date, unmet threshold); inside a seeded third of the commands one fault: every rename/link call fails (EIO/EACCES), every unlink fails, fsync fails, opening root.json fails, the process is killed on entry to the publishing rename or to its k-th write, or the directory sits on a tmpfs that is full or nearly full (short writes, ENOSPC); non-trivial = distinct (command, fault, outcome) triples in which a fault was active; distinct = the same triples",
                  level="exploration",
                  assumptions=["outcome-based oracle only (exit status vs file content), because tuftool runs a multi-thread runtime",
                               "signature validity is decided by the tough library (itself checked by C01) and, for all-Ed25519 root key sets, independently by aws-lc over the reference canonical form",
                               "key identifiers are recomputed with two independent canonical-JSON encoders (harness Rust and Python)"],
                  components={"real": ["the tuftool binary built from /repo", "tempfile persist", "Linux kernel, tmpfs"],
                              "stub": ["none below the process; faults by strace injection and a full tmpfs"]})


# ------------------------------------------------------------------------- C08 / C19 disk faults

def diskfault_template(args):
    """E3 extension of C08 and C19: the output directory of save_target / cache sits on a tmpfs
    with a chosen amount of free space (a genuinely full or nearly full disk: ENOSPC, short
    writes), or single writes to the cached metadata files fail with EIO / ENOSPC (strace).
    Oracle: success reported => the copy is complete (and, for cache, loads); a file that is
    present under a target's name is never incomplete."""
    prop, ti, seed, tier = args
    rnd = random.Random(seed * 104729 + ti)
    W = os.path.join(RUN_DIR, "%s-d%d" % (prop, ti))
    shutil.rmtree(W, ignore_errors=True)
    os.makedirs(W)
    res = {"runs": 0, "fired": 0, "violations": [], "faults": {}, "states": set(), "nontrivial": set(), "sample": None, "harness": [], "unmodelled": set()}
    out = os.path.join(W, "out")
    mounted = False
    try:
        world = rnd.randrange(1, 10 ** 6)
        consistent = rnd.random() < 0.5 if prop == "C19" else False
        sizes = {"a.bin": rnd.choice([1, 100, 3000, 4096, 4097, 9000]), "b.bin": rnd.choice([0, 700, 5000, 20000])}
        repo = os.path.join(W, "repo")
        cmd = [SIM, "mkrepo", "--out", repo, "--world", str(world), "--versions", "1,2,2,2,1"]
        for n, sz in sizes.items():
            cmd += ["--target", "%s:%d" % (n, sz)]
        if consistent:
            cmd.append("--consistent")
        if sh(cmd).returncode != 0:
            res["harness"].append("mkrepo failed")
            return finish(res, W)
        tmpl = {"world": world, "consistent": consistent, "sizes": sizes}
        res["sample"] = tmpl
        src = {}
        for root, _, files in os.walk(os.path.join(repo, "targets")):
            for f in files:
                p = os.path.join(root, f)
                src[os.path.relpath(p, os.path.join(repo, "targets"))] = open(p, "rb").read()
        os.makedirs(out)
        if sh(["mount", "-t", "tmpfs", "-o", "size=128k", "tmpfs", out]).returncode != 0:
            res["harness"].append("cannot mount tmpfs")
            return finish(res, W)
        mounted = True
        page = 4096
        levels = list(range(0, 20)) if tier == "thorough" else sorted(rnd.sample(range(0, 20), 9))

        def client(op, extra):
            ds = os.path.join(W, "ds")
            shutil.rmtree(ds, ignore_errors=True)
            os.makedirs(ds)
            return client_cmd(repo, ds) + ["--op", op] + extra

        for free_pages in levels:
            for n in os.listdir(out):
                p = os.path.join(out, n)
                shutil.rmtree(p) if os.path.isdir(p) else os.unlink(p)
            stv = os.statvfs(out)
            fill = stv.f_bavail * stv.f_frsize - free_pages * page
            try:
                with open(os.path.join(out, ".filler"), "wb") as f:
                    f.write(b"\0" * max(0, fill))
            except OSError:
                pass
            fault = {"kind": "disk-full", "free_pages": free_pages}
            if prop == "C19":
                r = sh(client("cache", ["--out", out]))
            else:
                name = rnd.choice(sorted(sizes))
                fault["name"] = name
                r = sh(client("save", ["--out", out, "--name", name]))
            res["runs"] += 1
            res["fired"] += 1
            res["faults"]["disk-full"] = res["faults"].get("disk-full", 0) + 1
            try:
                os.unlink(os.path.join(out, ".filler"))
            except OSError:
                pass
            ctx = {"template": tmpl, "template_index": ti, "tier": tier, "fault": fault, "exit": r.returncode, "engine": "procsim"}
            if prop == "C19":
                tdir = os.path.join(out, "targets")
                present = {}
                if os.path.isdir(tdir):
                    for root, _, files in os.walk(tdir):
                        for f in files:
                            p = os.path.join(root, f)
                            present[os.path.relpath(p, tdir)] = open(p, "rb").read()
                bad = sorted(n for n, b in present.items() if n in src and b != src[n])
                stray = sorted(n for n in present if n not in src)
                if bad:
                    res["violations"].append(dict(ctx, key="incomplete-target-stored-in-clone:disk-full", detail="targets %s are present in the clone but differ from the source (exit %d)" % (bad, r.returncode)))
                if r.returncode == 0:
                    rr = sh([SIM, "client", "--root", os.path.join(repo, "root.json"), "--meta", os.path.join(out, "metadata"), "--targets", tdir, "--datastore", os.path.join(W, "ds2")] if os.makedirs(os.path.join(W, "ds2"), exist_ok=True) is None else [])
                    shutil.rmtree(os.path.join(W, "ds2"), ignore_errors=True)
                    if rr.returncode != 0:
                        sizes_now = {n: os.path.getsize(os.path.join(out, "metadata", n)) for n in sorted(os.listdir(os.path.join(out, "metadata")))} if os.path.isdir(os.path.join(out, "metadata")) else {}
                        res["violations"].append(dict(ctx, key="cache-reported-success-but-clone-does-not-load:disk-full", detail="cache() exited 0 with %d free pages, loading the clone exits %d; metadata sizes %s" % (free_pages, rr.returncode, sizes_now)))
                    elif len(present) != len(src) or stray:
                        res["violations"].append(dict(ctx, key="cache-reported-success-but-targets-missing:disk-full", detail="clone holds %s of %s" % (sorted(present), sorted(src))))
                    res["nontrivial"].add(("cache", free_pages, "ok"))
                else:
                    res["nontrivial"].add(("cache", free_pages, "refused"))
                res["states"].add(("cache", free_pages, r.returncode == 0))
            else:
                name = fault["name"]
                p = os.path.join(out, name)
                stray = sorted(n for n in os.listdir(out) if n != name)
                want = src[name]
                if os.path.exists(p):
                    got = open(p, "rb").read()
                    if got != want:
                        res["violations"].append(dict(ctx, key="incomplete-file-at-destination:disk-full:%s" % ("success-reported" if r.returncode == 0 else "error-reported"),
                                                      detail="save_target of %s (%d bytes) with %d free pages exited %d and left %d bytes at the destination" % (name, len(want), free_pages, r.returncode, len(got))))
                elif r.returncode == 0:
                    res["violations"].append(dict(ctx, key="save-reported-success-but-no-file:disk-full", detail="exit 0, no file"))
                if stray:
                    res["violations"].append(dict(ctx, key="stray-files-after-save:disk-full", detail="%s" % stray))
                res["states"].add(("save", free_pages, r.returncode == 0))
                res["nontrivial"].add(("save", name, free_pages, r.returncode == 0))
    except Exception as e:  # noqa
        import traceback
        res["harness"].append("exception: %r %s" % (e, traceback.format_exc()[-400:]))
    finally:
        if mounted:
            sh(["umount", out])
    return finish(res, W)


def run_diskfault(prop, tier, replay=None):
    t0 = time.time()
    known = known_findings(prop)
    if replay:
        spec = json.load(open(replay))
        r = diskfault_template((prop, spec["template_index"], spec.get("seed", SEED), spec.get("tier", "quick")))
        for v in r["violations"]:
            if v["key"] == spec["key"]:
                print("VIOLATION property=%s replay=%s" % (prop, replay))
                print("  key=%s detail=%s" % (v["key"], v["detail"]))
                return 1
        print("replay did not violate")
        return 0
    n = 16 if tier == "quick" else 200
    print("check=%s (E3 disk-fault extension) tier=%s VERIF_SEED=%d templates=%d" % (prop, tier, SEED, n), flush=True)
    with multiprocessing.Pool(THREADS) as pool:
        results = pool.map(diskfault_template, [(prop, i, SEED, tier) for i in range(n)])
    return report(prop, tier, results, known, t0, rule="", level="", assumptions=[], components={}, merge=True)


# ------------------------------------------------------------------------------------------ report

def report(prop, tier, results, known, t0, rule, level, assumptions, components, merge=False):
    runs = sum(r["runs"] for r in results)
    fired = sum(r["fired"] for r in results)
    faults = {}
    states, nontrivial = set(), set()
    harness, viol = [], []
    for r in results:
        for k, v in r["faults"].items():
            faults[k] = faults.get(k, 0) + v
        states.update(map(str, r["states"]))
        nontrivial.update(map(str, r["nontrivial"]))
        harness += r["harness"]
        viol += r["violations"]
    exit_code = 0
    seen = set()
    reported = 0
    matched = []
    os.makedirs(os.path.join(VERIF, "replays"), exist_ok=True)
    for v in viol:
        if v["key"] in seen:
            continue
        seen.add(v["key"])
        if v["key"] in known:
            print("KNOWN-FINDING: property=%s %s [key=%s]" % (prop, known[v["key"]], v["key"]))
            matched.append(v["key"])
            continue
        path = os.path.join(VERIF, "replays", "%s-%d-%d.json" % (prop, SEED, reported))
        v = dict(v, seed=SEED, property=prop)
        v["_path"] = path
        json.dump(v, open(path, "w"), indent=1, default=str)
        # confirm in a fresh process
        rr = sh([sys.executable, os.path.abspath(__file__), prop, "replay", path])
        if rr.returncode != 1:
            harness.append("violation %s did not reproduce on replay (exit %d)" % (v["key"], rr.returncode))
            continue
        print("VIOLATION property=%s replay=%s" % (prop, path))
        print("  key=%s %s" % (v["key"], v.get("detail", json.dumps(v.get("fault")))))
        reported += 1
        exit_code = 1
        if reported >= 8:
            break
    if fired == 0:
        harness.append("no fault fired in this batch")
    for h in harness[:10]:
        print("HARNESS: %s" % h, file=sys.stderr)
    if harness and exit_code == 0:
        exit_code = 2
    wall = time.time() - t0
    samples = [r["sample"] for r in results if r["sample"]][:3]
    ev = {
        "property_id": prop, "tier": tier, "seed": SEED, "level": level,
        "coverage": {
            "evaluations": max(runs, 1), "distinct_nontrivial": len(nontrivial), "rule": rule, "samples": samples or [{}],
            "injected_runs_in_which_the_fault_fired": fired, "faults_fired": faults, "distinct_states": len(states),
            "runs_per_hour": int(runs / wall * 3600) if wall > 0 else 0, "sim_time_covered_s": 0,
            "components": components, "known_findings_matched": matched, "harness_messages": harness[:10],
            "templates_or_programs": len(results), "exhaustive": False,
        },
        "assumptions": assumptions, "wall_s": round(wall, 3), "violations": reported,
    }
    os.makedirs(os.path.join(VERIF, "evidence"), exist_ok=True)
    evp = os.path.join(VERIF, "evidence", prop + ".json")
    if merge and os.path.exists(evp):
        # extension of a check whose main evidence was written by the in-process engine
        base = json.load(open(evp))
        base["coverage"]["e3_disk_fault_extension"] = {
            "evaluations": runs, "faults_fired": faults, "distinct_outcomes": len(nontrivial), "violations": reported,
            "what": "save_target / cache with the output directory on a tmpfs with 0..19 free pages (real ENOSPC and short writes) in a separate traced-less client process; oracle: success reported => complete copy that loads; no incomplete file under a target's name",
            "samples": samples[:2], "known_findings_matched": matched, "harness_messages": harness[:5], "wall_s": round(wall, 2)}
        base["violations"] = base.get("violations", 0) + reported
        base["wall_s"] = round(base.get("wall_s", 0) + wall, 3)
        json.dump(base, open(evp, "w"), indent=1)
    else:
        json.dump(ev, open(evp, "w"), indent=1)
    print("done: evaluations=%d fired=%d distinct_states=%d nontrivial=%d violations=%d wall=%.1fs" % (runs, fired, len(states), len(nontrivial), reported, wall))
    shutil.rmtree(RUN_DIR, ignore_errors=True)
    return exit_code


def main():
    if len(sys.argv) < 3:
        print(__doc__)
        return 2
    prop, mode = sys.argv[1], sys.argv[2]
    replay = sys.argv[3] if mode == "replay" and len(sys.argv) > 3 else None
    if mode == "selftest":
        mode = "quick"
    if prop == "C15":
        if replay:
            spec = json.load(open(replay))
            spec["_path"] = replay
            return c15_replay(spec)
        return run_c15(mode)
    if prop == "C20":
        return run_c20(mode, replay)
    if prop in ("C08", "C19"):
        return run_diskfault(prop, mode, replay)
    return 2


if __name__ == "__main__":
    sys.exit(main())
